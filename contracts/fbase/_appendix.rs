#[allow(unused_imports)] use vstd::arithmetic::{div_mod::*, power2::*, mul::*};
#[allow(unused_imports)] use vstd::bits::*;
#[allow(unused_imports)] use vstd::std_specs::bits::*;

verus! {
/// p < 199: membership in SMALL_PRIMES is primality (generated: 199 trial-division facts by computation,
/// 46 element facts of the real constant)
pub proof fn lemma_small_primes_table(p: u64)
    requires p < 199
    ensures SMALL_PRIMES@.contains(p) == is_prime(p as nat), SMALL_PRIMES@.len() == 46, SMALL_PRIMES@[45] == 199
{
    lemma_is_prime_c(p as nat);
    let s = SMALL_PRIMES@;
    assert(s[0] == 2);
    assert(s[1] == 3);
    assert(s[2] == 5);
    assert(s[3] == 7);
    assert(s[4] == 11);
    assert(s[5] == 13);
    assert(s[6] == 17);
    assert(s[7] == 19);
    assert(s[8] == 23);
    assert(s[9] == 29);
    assert(s[10] == 31);
    assert(s[11] == 37);
    assert(s[12] == 41);
    assert(s[13] == 43);
    assert(s[14] == 47);
    assert(s[15] == 53);
    assert(s[16] == 59);
    assert(s[17] == 61);
    assert(s[18] == 67);
    assert(s[19] == 71);
    assert(s[20] == 73);
    assert(s[21] == 79);
    assert(s[22] == 83);
    assert(s[23] == 89);
    assert(s[24] == 97);
    assert(s[25] == 101);
    assert(s[26] == 103);
    assert(s[27] == 107);
    assert(s[28] == 109);
    assert(s[29] == 113);
    assert(s[30] == 127);
    assert(s[31] == 131);
    assert(s[32] == 137);
    assert(s[33] == 139);
    assert(s[34] == 149);
    assert(s[35] == 151);
    assert(s[36] == 157);
    assert(s[37] == 163);
    assert(s[38] == 167);
    assert(s[39] == 173);
    assert(s[40] == 179);
    assert(s[41] == 181);
    assert(s[42] == 191);
    assert(s[43] == 193);
    assert(s[44] == 197);
    assert(s[45] == 199);
    if false {}
    else if p == 0 { assert(is_prime_c(0) == false) by (compute_only); assert forall|i: int| 0 <= i < 46 implies s[i] != p by { lemma_small_primes_elems(i); } }
    else if p == 1 { assert(is_prime_c(1) == false) by (compute_only); assert forall|i: int| 0 <= i < 46 implies s[i] != p by { lemma_small_primes_elems(i); } }
    else if p == 2 { assert(is_prime_c(2) == true) by (compute_only); assert(s[0] == p); }
    else if p == 3 { assert(is_prime_c(3) == true) by (compute_only); assert(s[1] == p); }
    else if p == 4 { assert(is_prime_c(4) == false) by (compute_only); assert forall|i: int| 0 <= i < 46 implies s[i] != p by { lemma_small_primes_elems(i); } }
    else if p == 5 { assert(is_prime_c(5) == true) by (compute_only); assert(s[2] == p); }
    else if p == 6 { assert(is_prime_c(6) == false) by (compute_only); assert forall|i: int| 0 <= i < 46 implies s[i] != p by { lemma_small_primes_elems(i); } }
    else if p == 7 { assert(is_prime_c(7) == true) by (compute_only); assert(s[3] == p); }
    else if p == 8 { assert(is_prime_c(8) == false) by (compute_only); assert forall|i: int| 0 <= i < 46 implies s[i] != p by { lemma_small_primes_elems(i); } }
    else if p == 9 { assert(is_prime_c(9) == false) by (compute_only); assert forall|i: int| 0 <= i < 46 implies s[i] != p by { lemma_small_primes_elems(i); } }
    else if p == 10 { assert(is_prime_c(10) == false) by (compute_only); assert forall|i: int| 0 <= i < 46 implies s[i] != p by { lemma_small_primes_elems(i); } }
    else if p == 11 { assert(is_prime_c(11) == true) by (compute_only); assert(s[4] == p); }
    else if p == 12 { assert(is_prime_c(12) == false) by (compute_only); assert forall|i: int| 0 <= i < 46 implies s[i] != p by { lemma_small_primes_elems(i); } }
    else if p == 13 { assert(is_prime_c(13) == true) by (compute_only); assert(s[5] == p); }
    else if p == 14 { assert(is_prime_c(14) == false) by (compute_only); assert forall|i: int| 0 <= i < 46 implies s[i] != p by { lemma_small_primes_elems(i); } }
    else if p == 15 { assert(is_prime_c(15) == false) by (compute_only); assert forall|i: int| 0 <= i < 46 implies s[i] != p by { lemma_small_primes_elems(i); } }
    else if p == 16 { assert(is_prime_c(16) == false) by (compute_only); assert forall|i: int| 0 <= i < 46 implies s[i] != p by { lemma_small_primes_elems(i); } }
    else if p == 17 { assert(is_prime_c(17) == true) by (compute_only); assert(s[6] == p); }
    else if p == 18 { assert(is_prime_c(18) == false) by (compute_only); assert forall|i: int| 0 <= i < 46 implies s[i] != p by { lemma_small_primes_elems(i); } }
    else if p == 19 { assert(is_prime_c(19) == true) by (compute_only); assert(s[7] == p); }
    else if p == 20 { assert(is_prime_c(20) == false) by (compute_only); assert forall|i: int| 0 <= i < 46 implies s[i] != p by { lemma_small_primes_elems(i); } }
    else if p == 21 { assert(is_prime_c(21) == false) by (compute_only); assert forall|i: int| 0 <= i < 46 implies s[i] != p by { lemma_small_primes_elems(i); } }
    else if p == 22 { assert(is_prime_c(22) == false) by (compute_only); assert forall|i: int| 0 <= i < 46 implies s[i] != p by { lemma_small_primes_elems(i); } }
    else if p == 23 { assert(is_prime_c(23) == true) by (compute_only); assert(s[8] == p); }
    else if p == 24 { assert(is_prime_c(24) == false) by (compute_only); assert forall|i: int| 0 <= i < 46 implies s[i] != p by { lemma_small_primes_elems(i); } }
    else if p == 25 { assert(is_prime_c(25) == false) by (compute_only); assert forall|i: int| 0 <= i < 46 implies s[i] != p by { lemma_small_primes_elems(i); } }
    else if p == 26 { assert(is_prime_c(26) == false) by (compute_only); assert forall|i: int| 0 <= i < 46 implies s[i] != p by { lemma_small_primes_elems(i); } }
    else if p == 27 { assert(is_prime_c(27) == false) by (compute_only); assert forall|i: int| 0 <= i < 46 implies s[i] != p by { lemma_small_primes_elems(i); } }
    else if p == 28 { assert(is_prime_c(28) == false) by (compute_only); assert forall|i: int| 0 <= i < 46 implies s[i] != p by { lemma_small_primes_elems(i); } }
    else if p == 29 { assert(is_prime_c(29) == true) by (compute_only); assert(s[9] == p); }
    else if p == 30 { assert(is_prime_c(30) == false) by (compute_only); assert forall|i: int| 0 <= i < 46 implies s[i] != p by { lemma_small_primes_elems(i); } }
    else if p == 31 { assert(is_prime_c(31) == true) by (compute_only); assert(s[10] == p); }
    else if p == 32 { assert(is_prime_c(32) == false) by (compute_only); assert forall|i: int| 0 <= i < 46 implies s[i] != p by { lemma_small_primes_elems(i); } }
    else if p == 33 { assert(is_prime_c(33) == false) by (compute_only); assert forall|i: int| 0 <= i < 46 implies s[i] != p by { lemma_small_primes_elems(i); } }
    else if p == 34 { assert(is_prime_c(34) == false) by (compute_only); assert forall|i: int| 0 <= i < 46 implies s[i] != p by { lemma_small_primes_elems(i); } }
    else if p == 35 { assert(is_prime_c(35) == false) by (compute_only); assert forall|i: int| 0 <= i < 46 implies s[i] != p by { lemma_small_primes_elems(i); } }
    else if p == 36 { assert(is_prime_c(36) == false) by (compute_only); assert forall|i: int| 0 <= i < 46 implies s[i] != p by { lemma_small_primes_elems(i); } }
    else if p == 37 { assert(is_prime_c(37) == true) by (compute_only); assert(s[11] == p); }
    else if p == 38 { assert(is_prime_c(38) == false) by (compute_only); assert forall|i: int| 0 <= i < 46 implies s[i] != p by { lemma_small_primes_elems(i); } }
    else if p == 39 { assert(is_prime_c(39) == false) by (compute_only); assert forall|i: int| 0 <= i < 46 implies s[i] != p by { lemma_small_primes_elems(i); } }
    else if p == 40 { assert(is_prime_c(40) == false) by (compute_only); assert forall|i: int| 0 <= i < 46 implies s[i] != p by { lemma_small_primes_elems(i); } }
    else if p == 41 { assert(is_prime_c(41) == true) by (compute_only); assert(s[12] == p); }
    else if p == 42 { assert(is_prime_c(42) == false) by (compute_only); assert forall|i: int| 0 <= i < 46 implies s[i] != p by { lemma_small_primes_elems(i); } }
    else if p == 43 { assert(is_prime_c(43) == true) by (compute_only); assert(s[13] == p); }
    else if p == 44 { assert(is_prime_c(44) == false) by (compute_only); assert forall|i: int| 0 <= i < 46 implies s[i] != p by { lemma_small_primes_elems(i); } }
    else if p == 45 { assert(is_prime_c(45) == false) by (compute_only); assert forall|i: int| 0 <= i < 46 implies s[i] != p by { lemma_small_primes_elems(i); } }
    else if p == 46 { assert(is_prime_c(46) == false) by (compute_only); assert forall|i: int| 0 <= i < 46 implies s[i] != p by { lemma_small_primes_elems(i); } }
    else if p == 47 { assert(is_prime_c(47) == true) by (compute_only); assert(s[14] == p); }
    else if p == 48 { assert(is_prime_c(48) == false) by (compute_only); assert forall|i: int| 0 <= i < 46 implies s[i] != p by { lemma_small_primes_elems(i); } }
    else if p == 49 { assert(is_prime_c(49) == false) by (compute_only); assert forall|i: int| 0 <= i < 46 implies s[i] != p by { lemma_small_primes_elems(i); } }
    else if p == 50 { assert(is_prime_c(50) == false) by (compute_only); assert forall|i: int| 0 <= i < 46 implies s[i] != p by { lemma_small_primes_elems(i); } }
    else if p == 51 { assert(is_prime_c(51) == false) by (compute_only); assert forall|i: int| 0 <= i < 46 implies s[i] != p by { lemma_small_primes_elems(i); } }
    else if p == 52 { assert(is_prime_c(52) == false) by (compute_only); assert forall|i: int| 0 <= i < 46 implies s[i] != p by { lemma_small_primes_elems(i); } }
    else if p == 53 { assert(is_prime_c(53) == true) by (compute_only); assert(s[15] == p); }
    else if p == 54 { assert(is_prime_c(54) == false) by (compute_only); assert forall|i: int| 0 <= i < 46 implies s[i] != p by { lemma_small_primes_elems(i); } }
    else if p == 55 { assert(is_prime_c(55) == false) by (compute_only); assert forall|i: int| 0 <= i < 46 implies s[i] != p by { lemma_small_primes_elems(i); } }
    else if p == 56 { assert(is_prime_c(56) == false) by (compute_only); assert forall|i: int| 0 <= i < 46 implies s[i] != p by { lemma_small_primes_elems(i); } }
    else if p == 57 { assert(is_prime_c(57) == false) by (compute_only); assert forall|i: int| 0 <= i < 46 implies s[i] != p by { lemma_small_primes_elems(i); } }
    else if p == 58 { assert(is_prime_c(58) == false) by (compute_only); assert forall|i: int| 0 <= i < 46 implies s[i] != p by { lemma_small_primes_elems(i); } }
    else if p == 59 { assert(is_prime_c(59) == true) by (compute_only); assert(s[16] == p); }
    else if p == 60 { assert(is_prime_c(60) == false) by (compute_only); assert forall|i: int| 0 <= i < 46 implies s[i] != p by { lemma_small_primes_elems(i); } }
    else if p == 61 { assert(is_prime_c(61) == true) by (compute_only); assert(s[17] == p); }
    else if p == 62 { assert(is_prime_c(62) == false) by (compute_only); assert forall|i: int| 0 <= i < 46 implies s[i] != p by { lemma_small_primes_elems(i); } }
    else if p == 63 { assert(is_prime_c(63) == false) by (compute_only); assert forall|i: int| 0 <= i < 46 implies s[i] != p by { lemma_small_primes_elems(i); } }
    else if p == 64 { assert(is_prime_c(64) == false) by (compute_only); assert forall|i: int| 0 <= i < 46 implies s[i] != p by { lemma_small_primes_elems(i); } }
    else if p == 65 { assert(is_prime_c(65) == false) by (compute_only); assert forall|i: int| 0 <= i < 46 implies s[i] != p by { lemma_small_primes_elems(i); } }
    else if p == 66 { assert(is_prime_c(66) == false) by (compute_only); assert forall|i: int| 0 <= i < 46 implies s[i] != p by { lemma_small_primes_elems(i); } }
    else if p == 67 { assert(is_prime_c(67) == true) by (compute_only); assert(s[18] == p); }
    else if p == 68 { assert(is_prime_c(68) == false) by (compute_only); assert forall|i: int| 0 <= i < 46 implies s[i] != p by { lemma_small_primes_elems(i); } }
    else if p == 69 { assert(is_prime_c(69) == false) by (compute_only); assert forall|i: int| 0 <= i < 46 implies s[i] != p by { lemma_small_primes_elems(i); } }
    else if p == 70 { assert(is_prime_c(70) == false) by (compute_only); assert forall|i: int| 0 <= i < 46 implies s[i] != p by { lemma_small_primes_elems(i); } }
    else if p == 71 { assert(is_prime_c(71) == true) by (compute_only); assert(s[19] == p); }
    else if p == 72 { assert(is_prime_c(72) == false) by (compute_only); assert forall|i: int| 0 <= i < 46 implies s[i] != p by { lemma_small_primes_elems(i); } }
    else if p == 73 { assert(is_prime_c(73) == true) by (compute_only); assert(s[20] == p); }
    else if p == 74 { assert(is_prime_c(74) == false) by (compute_only); assert forall|i: int| 0 <= i < 46 implies s[i] != p by { lemma_small_primes_elems(i); } }
    else if p == 75 { assert(is_prime_c(75) == false) by (compute_only); assert forall|i: int| 0 <= i < 46 implies s[i] != p by { lemma_small_primes_elems(i); } }
    else if p == 76 { assert(is_prime_c(76) == false) by (compute_only); assert forall|i: int| 0 <= i < 46 implies s[i] != p by { lemma_small_primes_elems(i); } }
    else if p == 77 { assert(is_prime_c(77) == false) by (compute_only); assert forall|i: int| 0 <= i < 46 implies s[i] != p by { lemma_small_primes_elems(i); } }
    else if p == 78 { assert(is_prime_c(78) == false) by (compute_only); assert forall|i: int| 0 <= i < 46 implies s[i] != p by { lemma_small_primes_elems(i); } }
    else if p == 79 { assert(is_prime_c(79) == true) by (compute_only); assert(s[21] == p); }
    else if p == 80 { assert(is_prime_c(80) == false) by (compute_only); assert forall|i: int| 0 <= i < 46 implies s[i] != p by { lemma_small_primes_elems(i); } }
    else if p == 81 { assert(is_prime_c(81) == false) by (compute_only); assert forall|i: int| 0 <= i < 46 implies s[i] != p by { lemma_small_primes_elems(i); } }
    else if p == 82 { assert(is_prime_c(82) == false) by (compute_only); assert forall|i: int| 0 <= i < 46 implies s[i] != p by { lemma_small_primes_elems(i); } }
    else if p == 83 { assert(is_prime_c(83) == true) by (compute_only); assert(s[22] == p); }
    else if p == 84 { assert(is_prime_c(84) == false) by (compute_only); assert forall|i: int| 0 <= i < 46 implies s[i] != p by { lemma_small_primes_elems(i); } }
    else if p == 85 { assert(is_prime_c(85) == false) by (compute_only); assert forall|i: int| 0 <= i < 46 implies s[i] != p by { lemma_small_primes_elems(i); } }
    else if p == 86 { assert(is_prime_c(86) == false) by (compute_only); assert forall|i: int| 0 <= i < 46 implies s[i] != p by { lemma_small_primes_elems(i); } }
    else if p == 87 { assert(is_prime_c(87) == false) by (compute_only); assert forall|i: int| 0 <= i < 46 implies s[i] != p by { lemma_small_primes_elems(i); } }
    else if p == 88 { assert(is_prime_c(88) == false) by (compute_only); assert forall|i: int| 0 <= i < 46 implies s[i] != p by { lemma_small_primes_elems(i); } }
    else if p == 89 { assert(is_prime_c(89) == true) by (compute_only); assert(s[23] == p); }
    else if p == 90 { assert(is_prime_c(90) == false) by (compute_only); assert forall|i: int| 0 <= i < 46 implies s[i] != p by { lemma_small_primes_elems(i); } }
    else if p == 91 { assert(is_prime_c(91) == false) by (compute_only); assert forall|i: int| 0 <= i < 46 implies s[i] != p by { lemma_small_primes_elems(i); } }
    else if p == 92 { assert(is_prime_c(92) == false) by (compute_only); assert forall|i: int| 0 <= i < 46 implies s[i] != p by { lemma_small_primes_elems(i); } }
    else if p == 93 { assert(is_prime_c(93) == false) by (compute_only); assert forall|i: int| 0 <= i < 46 implies s[i] != p by { lemma_small_primes_elems(i); } }
    else if p == 94 { assert(is_prime_c(94) == false) by (compute_only); assert forall|i: int| 0 <= i < 46 implies s[i] != p by { lemma_small_primes_elems(i); } }
    else if p == 95 { assert(is_prime_c(95) == false) by (compute_only); assert forall|i: int| 0 <= i < 46 implies s[i] != p by { lemma_small_primes_elems(i); } }
    else if p == 96 { assert(is_prime_c(96) == false) by (compute_only); assert forall|i: int| 0 <= i < 46 implies s[i] != p by { lemma_small_primes_elems(i); } }
    else if p == 97 { assert(is_prime_c(97) == true) by (compute_only); assert(s[24] == p); }
    else if p == 98 { assert(is_prime_c(98) == false) by (compute_only); assert forall|i: int| 0 <= i < 46 implies s[i] != p by { lemma_small_primes_elems(i); } }
    else if p == 99 { assert(is_prime_c(99) == false) by (compute_only); assert forall|i: int| 0 <= i < 46 implies s[i] != p by { lemma_small_primes_elems(i); } }
    else if p == 100 { assert(is_prime_c(100) == false) by (compute_only); assert forall|i: int| 0 <= i < 46 implies s[i] != p by { lemma_small_primes_elems(i); } }
    else if p == 101 { assert(is_prime_c(101) == true) by (compute_only); assert(s[25] == p); }
    else if p == 102 { assert(is_prime_c(102) == false) by (compute_only); assert forall|i: int| 0 <= i < 46 implies s[i] != p by { lemma_small_primes_elems(i); } }
    else if p == 103 { assert(is_prime_c(103) == true) by (compute_only); assert(s[26] == p); }
    else if p == 104 { assert(is_prime_c(104) == false) by (compute_only); assert forall|i: int| 0 <= i < 46 implies s[i] != p by { lemma_small_primes_elems(i); } }
    else if p == 105 { assert(is_prime_c(105) == false) by (compute_only); assert forall|i: int| 0 <= i < 46 implies s[i] != p by { lemma_small_primes_elems(i); } }
    else if p == 106 { assert(is_prime_c(106) == false) by (compute_only); assert forall|i: int| 0 <= i < 46 implies s[i] != p by { lemma_small_primes_elems(i); } }
    else if p == 107 { assert(is_prime_c(107) == true) by (compute_only); assert(s[27] == p); }
    else if p == 108 { assert(is_prime_c(108) == false) by (compute_only); assert forall|i: int| 0 <= i < 46 implies s[i] != p by { lemma_small_primes_elems(i); } }
    else if p == 109 { assert(is_prime_c(109) == true) by (compute_only); assert(s[28] == p); }
    else if p == 110 { assert(is_prime_c(110) == false) by (compute_only); assert forall|i: int| 0 <= i < 46 implies s[i] != p by { lemma_small_primes_elems(i); } }
    else if p == 111 { assert(is_prime_c(111) == false) by (compute_only); assert forall|i: int| 0 <= i < 46 implies s[i] != p by { lemma_small_primes_elems(i); } }
    else if p == 112 { assert(is_prime_c(112) == false) by (compute_only); assert forall|i: int| 0 <= i < 46 implies s[i] != p by { lemma_small_primes_elems(i); } }
    else if p == 113 { assert(is_prime_c(113) == true) by (compute_only); assert(s[29] == p); }
    else if p == 114 { assert(is_prime_c(114) == false) by (compute_only); assert forall|i: int| 0 <= i < 46 implies s[i] != p by { lemma_small_primes_elems(i); } }
    else if p == 115 { assert(is_prime_c(115) == false) by (compute_only); assert forall|i: int| 0 <= i < 46 implies s[i] != p by { lemma_small_primes_elems(i); } }
    else if p == 116 { assert(is_prime_c(116) == false) by (compute_only); assert forall|i: int| 0 <= i < 46 implies s[i] != p by { lemma_small_primes_elems(i); } }
    else if p == 117 { assert(is_prime_c(117) == false) by (compute_only); assert forall|i: int| 0 <= i < 46 implies s[i] != p by { lemma_small_primes_elems(i); } }
    else if p == 118 { assert(is_prime_c(118) == false) by (compute_only); assert forall|i: int| 0 <= i < 46 implies s[i] != p by { lemma_small_primes_elems(i); } }
    else if p == 119 { assert(is_prime_c(119) == false) by (compute_only); assert forall|i: int| 0 <= i < 46 implies s[i] != p by { lemma_small_primes_elems(i); } }
    else if p == 120 { assert(is_prime_c(120) == false) by (compute_only); assert forall|i: int| 0 <= i < 46 implies s[i] != p by { lemma_small_primes_elems(i); } }
    else if p == 121 { assert(is_prime_c(121) == false) by (compute_only); assert forall|i: int| 0 <= i < 46 implies s[i] != p by { lemma_small_primes_elems(i); } }
    else if p == 122 { assert(is_prime_c(122) == false) by (compute_only); assert forall|i: int| 0 <= i < 46 implies s[i] != p by { lemma_small_primes_elems(i); } }
    else if p == 123 { assert(is_prime_c(123) == false) by (compute_only); assert forall|i: int| 0 <= i < 46 implies s[i] != p by { lemma_small_primes_elems(i); } }
    else if p == 124 { assert(is_prime_c(124) == false) by (compute_only); assert forall|i: int| 0 <= i < 46 implies s[i] != p by { lemma_small_primes_elems(i); } }
    else if p == 125 { assert(is_prime_c(125) == false) by (compute_only); assert forall|i: int| 0 <= i < 46 implies s[i] != p by { lemma_small_primes_elems(i); } }
    else if p == 126 { assert(is_prime_c(126) == false) by (compute_only); assert forall|i: int| 0 <= i < 46 implies s[i] != p by { lemma_small_primes_elems(i); } }
    else if p == 127 { assert(is_prime_c(127) == true) by (compute_only); assert(s[30] == p); }
    else if p == 128 { assert(is_prime_c(128) == false) by (compute_only); assert forall|i: int| 0 <= i < 46 implies s[i] != p by { lemma_small_primes_elems(i); } }
    else if p == 129 { assert(is_prime_c(129) == false) by (compute_only); assert forall|i: int| 0 <= i < 46 implies s[i] != p by { lemma_small_primes_elems(i); } }
    else if p == 130 { assert(is_prime_c(130) == false) by (compute_only); assert forall|i: int| 0 <= i < 46 implies s[i] != p by { lemma_small_primes_elems(i); } }
    else if p == 131 { assert(is_prime_c(131) == true) by (compute_only); assert(s[31] == p); }
    else if p == 132 { assert(is_prime_c(132) == false) by (compute_only); assert forall|i: int| 0 <= i < 46 implies s[i] != p by { lemma_small_primes_elems(i); } }
    else if p == 133 { assert(is_prime_c(133) == false) by (compute_only); assert forall|i: int| 0 <= i < 46 implies s[i] != p by { lemma_small_primes_elems(i); } }
    else if p == 134 { assert(is_prime_c(134) == false) by (compute_only); assert forall|i: int| 0 <= i < 46 implies s[i] != p by { lemma_small_primes_elems(i); } }
    else if p == 135 { assert(is_prime_c(135) == false) by (compute_only); assert forall|i: int| 0 <= i < 46 implies s[i] != p by { lemma_small_primes_elems(i); } }
    else if p == 136 { assert(is_prime_c(136) == false) by (compute_only); assert forall|i: int| 0 <= i < 46 implies s[i] != p by { lemma_small_primes_elems(i); } }
    else if p == 137 { assert(is_prime_c(137) == true) by (compute_only); assert(s[32] == p); }
    else if p == 138 { assert(is_prime_c(138) == false) by (compute_only); assert forall|i: int| 0 <= i < 46 implies s[i] != p by { lemma_small_primes_elems(i); } }
    else if p == 139 { assert(is_prime_c(139) == true) by (compute_only); assert(s[33] == p); }
    else if p == 140 { assert(is_prime_c(140) == false) by (compute_only); assert forall|i: int| 0 <= i < 46 implies s[i] != p by { lemma_small_primes_elems(i); } }
    else if p == 141 { assert(is_prime_c(141) == false) by (compute_only); assert forall|i: int| 0 <= i < 46 implies s[i] != p by { lemma_small_primes_elems(i); } }
    else if p == 142 { assert(is_prime_c(142) == false) by (compute_only); assert forall|i: int| 0 <= i < 46 implies s[i] != p by { lemma_small_primes_elems(i); } }
    else if p == 143 { assert(is_prime_c(143) == false) by (compute_only); assert forall|i: int| 0 <= i < 46 implies s[i] != p by { lemma_small_primes_elems(i); } }
    else if p == 144 { assert(is_prime_c(144) == false) by (compute_only); assert forall|i: int| 0 <= i < 46 implies s[i] != p by { lemma_small_primes_elems(i); } }
    else if p == 145 { assert(is_prime_c(145) == false) by (compute_only); assert forall|i: int| 0 <= i < 46 implies s[i] != p by { lemma_small_primes_elems(i); } }
    else if p == 146 { assert(is_prime_c(146) == false) by (compute_only); assert forall|i: int| 0 <= i < 46 implies s[i] != p by { lemma_small_primes_elems(i); } }
    else if p == 147 { assert(is_prime_c(147) == false) by (compute_only); assert forall|i: int| 0 <= i < 46 implies s[i] != p by { lemma_small_primes_elems(i); } }
    else if p == 148 { assert(is_prime_c(148) == false) by (compute_only); assert forall|i: int| 0 <= i < 46 implies s[i] != p by { lemma_small_primes_elems(i); } }
    else if p == 149 { assert(is_prime_c(149) == true) by (compute_only); assert(s[34] == p); }
    else if p == 150 { assert(is_prime_c(150) == false) by (compute_only); assert forall|i: int| 0 <= i < 46 implies s[i] != p by { lemma_small_primes_elems(i); } }
    else if p == 151 { assert(is_prime_c(151) == true) by (compute_only); assert(s[35] == p); }
    else if p == 152 { assert(is_prime_c(152) == false) by (compute_only); assert forall|i: int| 0 <= i < 46 implies s[i] != p by { lemma_small_primes_elems(i); } }
    else if p == 153 { assert(is_prime_c(153) == false) by (compute_only); assert forall|i: int| 0 <= i < 46 implies s[i] != p by { lemma_small_primes_elems(i); } }
    else if p == 154 { assert(is_prime_c(154) == false) by (compute_only); assert forall|i: int| 0 <= i < 46 implies s[i] != p by { lemma_small_primes_elems(i); } }
    else if p == 155 { assert(is_prime_c(155) == false) by (compute_only); assert forall|i: int| 0 <= i < 46 implies s[i] != p by { lemma_small_primes_elems(i); } }
    else if p == 156 { assert(is_prime_c(156) == false) by (compute_only); assert forall|i: int| 0 <= i < 46 implies s[i] != p by { lemma_small_primes_elems(i); } }
    else if p == 157 { assert(is_prime_c(157) == true) by (compute_only); assert(s[36] == p); }
    else if p == 158 { assert(is_prime_c(158) == false) by (compute_only); assert forall|i: int| 0 <= i < 46 implies s[i] != p by { lemma_small_primes_elems(i); } }
    else if p == 159 { assert(is_prime_c(159) == false) by (compute_only); assert forall|i: int| 0 <= i < 46 implies s[i] != p by { lemma_small_primes_elems(i); } }
    else if p == 160 { assert(is_prime_c(160) == false) by (compute_only); assert forall|i: int| 0 <= i < 46 implies s[i] != p by { lemma_small_primes_elems(i); } }
    else if p == 161 { assert(is_prime_c(161) == false) by (compute_only); assert forall|i: int| 0 <= i < 46 implies s[i] != p by { lemma_small_primes_elems(i); } }
    else if p == 162 { assert(is_prime_c(162) == false) by (compute_only); assert forall|i: int| 0 <= i < 46 implies s[i] != p by { lemma_small_primes_elems(i); } }
    else if p == 163 { assert(is_prime_c(163) == true) by (compute_only); assert(s[37] == p); }
    else if p == 164 { assert(is_prime_c(164) == false) by (compute_only); assert forall|i: int| 0 <= i < 46 implies s[i] != p by { lemma_small_primes_elems(i); } }
    else if p == 165 { assert(is_prime_c(165) == false) by (compute_only); assert forall|i: int| 0 <= i < 46 implies s[i] != p by { lemma_small_primes_elems(i); } }
    else if p == 166 { assert(is_prime_c(166) == false) by (compute_only); assert forall|i: int| 0 <= i < 46 implies s[i] != p by { lemma_small_primes_elems(i); } }
    else if p == 167 { assert(is_prime_c(167) == true) by (compute_only); assert(s[38] == p); }
    else if p == 168 { assert(is_prime_c(168) == false) by (compute_only); assert forall|i: int| 0 <= i < 46 implies s[i] != p by { lemma_small_primes_elems(i); } }
    else if p == 169 { assert(is_prime_c(169) == false) by (compute_only); assert forall|i: int| 0 <= i < 46 implies s[i] != p by { lemma_small_primes_elems(i); } }
    else if p == 170 { assert(is_prime_c(170) == false) by (compute_only); assert forall|i: int| 0 <= i < 46 implies s[i] != p by { lemma_small_primes_elems(i); } }
    else if p == 171 { assert(is_prime_c(171) == false) by (compute_only); assert forall|i: int| 0 <= i < 46 implies s[i] != p by { lemma_small_primes_elems(i); } }
    else if p == 172 { assert(is_prime_c(172) == false) by (compute_only); assert forall|i: int| 0 <= i < 46 implies s[i] != p by { lemma_small_primes_elems(i); } }
    else if p == 173 { assert(is_prime_c(173) == true) by (compute_only); assert(s[39] == p); }
    else if p == 174 { assert(is_prime_c(174) == false) by (compute_only); assert forall|i: int| 0 <= i < 46 implies s[i] != p by { lemma_small_primes_elems(i); } }
    else if p == 175 { assert(is_prime_c(175) == false) by (compute_only); assert forall|i: int| 0 <= i < 46 implies s[i] != p by { lemma_small_primes_elems(i); } }
    else if p == 176 { assert(is_prime_c(176) == false) by (compute_only); assert forall|i: int| 0 <= i < 46 implies s[i] != p by { lemma_small_primes_elems(i); } }
    else if p == 177 { assert(is_prime_c(177) == false) by (compute_only); assert forall|i: int| 0 <= i < 46 implies s[i] != p by { lemma_small_primes_elems(i); } }
    else if p == 178 { assert(is_prime_c(178) == false) by (compute_only); assert forall|i: int| 0 <= i < 46 implies s[i] != p by { lemma_small_primes_elems(i); } }
    else if p == 179 { assert(is_prime_c(179) == true) by (compute_only); assert(s[40] == p); }
    else if p == 180 { assert(is_prime_c(180) == false) by (compute_only); assert forall|i: int| 0 <= i < 46 implies s[i] != p by { lemma_small_primes_elems(i); } }
    else if p == 181 { assert(is_prime_c(181) == true) by (compute_only); assert(s[41] == p); }
    else if p == 182 { assert(is_prime_c(182) == false) by (compute_only); assert forall|i: int| 0 <= i < 46 implies s[i] != p by { lemma_small_primes_elems(i); } }
    else if p == 183 { assert(is_prime_c(183) == false) by (compute_only); assert forall|i: int| 0 <= i < 46 implies s[i] != p by { lemma_small_primes_elems(i); } }
    else if p == 184 { assert(is_prime_c(184) == false) by (compute_only); assert forall|i: int| 0 <= i < 46 implies s[i] != p by { lemma_small_primes_elems(i); } }
    else if p == 185 { assert(is_prime_c(185) == false) by (compute_only); assert forall|i: int| 0 <= i < 46 implies s[i] != p by { lemma_small_primes_elems(i); } }
    else if p == 186 { assert(is_prime_c(186) == false) by (compute_only); assert forall|i: int| 0 <= i < 46 implies s[i] != p by { lemma_small_primes_elems(i); } }
    else if p == 187 { assert(is_prime_c(187) == false) by (compute_only); assert forall|i: int| 0 <= i < 46 implies s[i] != p by { lemma_small_primes_elems(i); } }
    else if p == 188 { assert(is_prime_c(188) == false) by (compute_only); assert forall|i: int| 0 <= i < 46 implies s[i] != p by { lemma_small_primes_elems(i); } }
    else if p == 189 { assert(is_prime_c(189) == false) by (compute_only); assert forall|i: int| 0 <= i < 46 implies s[i] != p by { lemma_small_primes_elems(i); } }
    else if p == 190 { assert(is_prime_c(190) == false) by (compute_only); assert forall|i: int| 0 <= i < 46 implies s[i] != p by { lemma_small_primes_elems(i); } }
    else if p == 191 { assert(is_prime_c(191) == true) by (compute_only); assert(s[42] == p); }
    else if p == 192 { assert(is_prime_c(192) == false) by (compute_only); assert forall|i: int| 0 <= i < 46 implies s[i] != p by { lemma_small_primes_elems(i); } }
    else if p == 193 { assert(is_prime_c(193) == true) by (compute_only); assert(s[43] == p); }
    else if p == 194 { assert(is_prime_c(194) == false) by (compute_only); assert forall|i: int| 0 <= i < 46 implies s[i] != p by { lemma_small_primes_elems(i); } }
    else if p == 195 { assert(is_prime_c(195) == false) by (compute_only); assert forall|i: int| 0 <= i < 46 implies s[i] != p by { lemma_small_primes_elems(i); } }
    else if p == 196 { assert(is_prime_c(196) == false) by (compute_only); assert forall|i: int| 0 <= i < 46 implies s[i] != p by { lemma_small_primes_elems(i); } }
    else if p == 197 { assert(is_prime_c(197) == true) by (compute_only); assert(s[44] == p); }
    else if p == 198 { assert(is_prime_c(198) == false) by (compute_only); assert forall|i: int| 0 <= i < 46 implies s[i] != p by { lemma_small_primes_elems(i); } }
}

/// every element of the real SMALL_PRIMES constant is one of the 46 listed values
pub proof fn lemma_small_primes_elems(i: int)
    requires 0 <= i < 46
    ensures is_prime_c(SMALL_PRIMES@[i] as nat) || SMALL_PRIMES@[i] == 199, SMALL_PRIMES@[i] >= 2,
        SMALL_PRIMES@[i] == 2 || SMALL_PRIMES@[i] == 3 || SMALL_PRIMES@[i] == 5 || SMALL_PRIMES@[i] == 7 || SMALL_PRIMES@[i] == 11 || SMALL_PRIMES@[i] == 13 || SMALL_PRIMES@[i] == 17 || SMALL_PRIMES@[i] == 19 || SMALL_PRIMES@[i] == 23 || SMALL_PRIMES@[i] == 29 || SMALL_PRIMES@[i] == 31 || SMALL_PRIMES@[i] == 37 || SMALL_PRIMES@[i] == 41 || SMALL_PRIMES@[i] == 43 || SMALL_PRIMES@[i] == 47 || SMALL_PRIMES@[i] == 53 || SMALL_PRIMES@[i] == 59 || SMALL_PRIMES@[i] == 61 || SMALL_PRIMES@[i] == 67 || SMALL_PRIMES@[i] == 71 || SMALL_PRIMES@[i] == 73 || SMALL_PRIMES@[i] == 79 || SMALL_PRIMES@[i] == 83 || SMALL_PRIMES@[i] == 89 || SMALL_PRIMES@[i] == 97 || SMALL_PRIMES@[i] == 101 || SMALL_PRIMES@[i] == 103 || SMALL_PRIMES@[i] == 107 || SMALL_PRIMES@[i] == 109 || SMALL_PRIMES@[i] == 113 || SMALL_PRIMES@[i] == 127 || SMALL_PRIMES@[i] == 131 || SMALL_PRIMES@[i] == 137 || SMALL_PRIMES@[i] == 139 || SMALL_PRIMES@[i] == 149 || SMALL_PRIMES@[i] == 151 || SMALL_PRIMES@[i] == 157 || SMALL_PRIMES@[i] == 163 || SMALL_PRIMES@[i] == 167 || SMALL_PRIMES@[i] == 173 || SMALL_PRIMES@[i] == 179 || SMALL_PRIMES@[i] == 181 || SMALL_PRIMES@[i] == 191 || SMALL_PRIMES@[i] == 193 || SMALL_PRIMES@[i] == 197 || SMALL_PRIMES@[i] == 199
{
    let s = SMALL_PRIMES@;
    assert(s[0] == 2);
    assert(s[1] == 3);
    assert(s[2] == 5);
    assert(s[3] == 7);
    assert(s[4] == 11);
    assert(s[5] == 13);
    assert(s[6] == 17);
    assert(s[7] == 19);
    assert(s[8] == 23);
    assert(s[9] == 29);
    assert(s[10] == 31);
    assert(s[11] == 37);
    assert(s[12] == 41);
    assert(s[13] == 43);
    assert(s[14] == 47);
    assert(s[15] == 53);
    assert(s[16] == 59);
    assert(s[17] == 61);
    assert(s[18] == 67);
    assert(s[19] == 71);
    assert(s[20] == 73);
    assert(s[21] == 79);
    assert(s[22] == 83);
    assert(s[23] == 89);
    assert(s[24] == 97);
    assert(s[25] == 101);
    assert(s[26] == 103);
    assert(s[27] == 107);
    assert(s[28] == 109);
    assert(s[29] == 113);
    assert(s[30] == 127);
    assert(s[31] == 131);
    assert(s[32] == 137);
    assert(s[33] == 139);
    assert(s[34] == 149);
    assert(s[35] == 151);
    assert(s[36] == 157);
    assert(s[37] == 163);
    assert(s[38] == 167);
    assert(s[39] == 173);
    assert(s[40] == 179);
    assert(s[41] == 181);
    assert(s[42] == 191);
    assert(s[43] == 193);
    assert(s[44] == 197);
    assert(s[45] == 199);
    if false {}
    else if i == 0 { assert(is_prime_c(2)) by (compute_only); }
    else if i == 1 { assert(is_prime_c(3)) by (compute_only); }
    else if i == 2 { assert(is_prime_c(5)) by (compute_only); }
    else if i == 3 { assert(is_prime_c(7)) by (compute_only); }
    else if i == 4 { assert(is_prime_c(11)) by (compute_only); }
    else if i == 5 { assert(is_prime_c(13)) by (compute_only); }
    else if i == 6 { assert(is_prime_c(17)) by (compute_only); }
    else if i == 7 { assert(is_prime_c(19)) by (compute_only); }
    else if i == 8 { assert(is_prime_c(23)) by (compute_only); }
    else if i == 9 { assert(is_prime_c(29)) by (compute_only); }
    else if i == 10 { assert(is_prime_c(31)) by (compute_only); }
    else if i == 11 { assert(is_prime_c(37)) by (compute_only); }
    else if i == 12 { assert(is_prime_c(41)) by (compute_only); }
    else if i == 13 { assert(is_prime_c(43)) by (compute_only); }
    else if i == 14 { assert(is_prime_c(47)) by (compute_only); }
    else if i == 15 { assert(is_prime_c(53)) by (compute_only); }
    else if i == 16 { assert(is_prime_c(59)) by (compute_only); }
    else if i == 17 { assert(is_prime_c(61)) by (compute_only); }
    else if i == 18 { assert(is_prime_c(67)) by (compute_only); }
    else if i == 19 { assert(is_prime_c(71)) by (compute_only); }
    else if i == 20 { assert(is_prime_c(73)) by (compute_only); }
    else if i == 21 { assert(is_prime_c(79)) by (compute_only); }
    else if i == 22 { assert(is_prime_c(83)) by (compute_only); }
    else if i == 23 { assert(is_prime_c(89)) by (compute_only); }
    else if i == 24 { assert(is_prime_c(97)) by (compute_only); }
    else if i == 25 { assert(is_prime_c(101)) by (compute_only); }
    else if i == 26 { assert(is_prime_c(103)) by (compute_only); }
    else if i == 27 { assert(is_prime_c(107)) by (compute_only); }
    else if i == 28 { assert(is_prime_c(109)) by (compute_only); }
    else if i == 29 { assert(is_prime_c(113)) by (compute_only); }
    else if i == 30 { assert(is_prime_c(127)) by (compute_only); }
    else if i == 31 { assert(is_prime_c(131)) by (compute_only); }
    else if i == 32 { assert(is_prime_c(137)) by (compute_only); }
    else if i == 33 { assert(is_prime_c(139)) by (compute_only); }
    else if i == 34 { assert(is_prime_c(149)) by (compute_only); }
    else if i == 35 { assert(is_prime_c(151)) by (compute_only); }
    else if i == 36 { assert(is_prime_c(157)) by (compute_only); }
    else if i == 37 { assert(is_prime_c(163)) by (compute_only); }
    else if i == 38 { assert(is_prime_c(167)) by (compute_only); }
    else if i == 39 { assert(is_prime_c(173)) by (compute_only); }
    else if i == 40 { assert(is_prime_c(179)) by (compute_only); }
    else if i == 41 { assert(is_prime_c(181)) by (compute_only); }
    else if i == 42 { assert(is_prime_c(191)) by (compute_only); }
    else if i == 43 { assert(is_prime_c(193)) by (compute_only); }
    else if i == 44 { assert(is_prime_c(197)) by (compute_only); }
    else if i == 45 { assert(is_prime_c(199)) by (compute_only); }
}
} // verus!

verus! {
impl FBase {
    /// views of the (partly private) fields
    pub closed spec fn sp(&self) -> Seq<u32> { self.primes@ }
    pub closed spec fn sr(&self) -> Seq<u32> { self.sqrts@ }
    pub closed spec fn sd(&self) -> Seq<arith::Dividers> { self.divs@ }
    /// representation invariant of a factor base: parallel vectors, every prime below 2^24 with its square root of n
    /// reduced modulo it and its divider
    pub open spec fn wf(&self) -> bool {
        &&& self.sp().len() == self.sr().len()
        &&& self.sp().len() == self.sd().len()
        &&& forall|i: int| 0 <= i < self.sp().len() ==> 2 <= #[trigger] self.sp()[i] < 0x100_0000
        &&& forall|i: int| 0 <= i < self.sp().len() ==> #[trigger] self.sr()[i] < self.sp()[i]
        &&& forall|i: int| 0 <= i < self.sp().len() ==> (#[trigger] self.sd()[i]).wfa() && self.sd()[i].pv() == self.sp()[i] as int
    }
}
} // verus!

verus! {
impl PrimeSieve {
    /// views of the private fields
    pub closed spec fn sm(&self) -> Seq<u32> { self.smallprimes@ }
    pub closed spec fn cnt(&self) -> int { self.block_count as int }
    pub closed spec fn offs(&self) -> Seq<u32> { self.offsets@ }
    /// offsets[j] is the position, relative to b * 2^16, of the first multiple of sm[j] in block number b
    pub open spec fn offsets_for(&self, b: int) -> bool {
        forall|j: int| 0 <= j < self.sm().len() ==> (#[trigger] self.offs()[j]) < self.sm()[j] && (b * 65536 + self.offs()[j]) % (self.sm()[j] as int) == 0
    }
    /// representation invariant: the table of primes below 2^16, and rolling offsets for the next block to sieve
    /// (block 0 is the table itself, so the offsets are already those of block 1)
    pub open spec fn wf(&self) -> bool {
        &&& small_table(self.sm())
        &&& self.offs().len() == self.sm().len()
        &&& 0 <= self.cnt() <= 65536
        &&& self.offsets_for(if self.cnt() == 0 { 1 } else { self.cnt() })
    }
}

/// `a.fill(v)` (index_loops pre-normalisation): every element equals v afterwards (T-std)
#[verifier::external_body]
fn ol_fill(a: &mut [bool; 1 << 16], v: bool)
    ensures forall|i: int| 0 <= i < 65536 ==> final(a)@[i] == v,
{ a.fill(v); }

/// length of a zip of two slices (index_loops pre-normalisation)
fn ol_min_usize(a: usize, b: usize) -> (r: usize)
    ensures r <= a, r <= b, r == a || r == b,
{ if a < b { a } else { b } }
} // verus!

verus! {
/// `assert_eq!(v.last(), Some(&x))`: returns only if the last element of v is x (checked at run time, panics otherwise)
#[verifier::external_body]
fn ol_assert_last(v: &Vec<u32>, x: u32)
    ensures v@.len() > 0, v@[v@.len() - 1] == x,
{ assert_eq!(v.last(), Some(&x)); }

/// `smalls.iter().map(|&p| p - 1 - 65535 % p).collect()` (iterator pipeline with a closure: outside the Verus subset).
/// The precondition is what the closure body needs (no division by zero, no underflow).
#[verifier::external_body]
fn ol_first_offsets(smalls: &Vec<u32>) -> (r: Vec<u32>)
    requires forall|i: int| 0 <= i < smalls@.len() ==> #[trigger] smalls@[i] >= 1,
    ensures r@.len() == smalls@.len(), forall|i: int| 0 <= i < r@.len() ==> #[trigger] r@[i] as int == smalls@[i] - 1 - 65535int % (smalls@[i] as int),
{ smalls.iter().map(|&p| p - 1 - 65535 % p).collect() }

/// 65521 is the largest prime below 2^16
proof fn lemma_no_prime_65522_65535(q: nat)
    requires 65521 < q < 65536
    ensures !is_prime_dv(q)
{
    let d: nat = if q % 2 == 0 { 2 } else if q == 65523 || q == 65529 || q == 65535 { 3 } else if q == 65525 { 5 } else if q == 65527 { 7 } else if q == 65531 { 19 } else { 13 };
    assert(divides(d, q));
}
} // verus!
