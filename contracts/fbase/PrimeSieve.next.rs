//! unit: {"container": "impl PrimeSieve", "file": "src/fbase.rs", "hoist": true, "kind": "fn", "name": "next", "pre": ["index_loops"], "props": ["C17", "C03"]}
//! ---- pinned ----
    pub fn next(&mut self) -> &[u32] {
        if self.block_count == 65536 {
            // The end
            self.block.clear();
            &self.block
        } else if self.block_count == 0 {
            self.block_count += 1;
            &self.smallprimes
        } else {
            // sieve a block
            self.sieve.fill(false);
            for (&p, off) in self.smallprimes.iter().zip(self.offsets.iter_mut()) {
                let mut o = *off as usize;
                let p = p as usize;
                loop {
                    let o3p = o + 3 * p;
                    if o3p >= self.sieve.len() {
                        break;
                    }
                    unsafe {
                        *self.sieve.get_unchecked_mut(o) = true;
                        *self.sieve.get_unchecked_mut(o + p) = true;
                        *self.sieve.get_unchecked_mut(o + 2 * p) = true;
                    }
                    o = o3p;
                }
                while o < self.sieve.len() {
                    self.sieve[o] = true;
                    o += p;
                }
                *off = o as u32 - 65536;
            }
            self.block.clear();
            for (idx, b) in self.sieve.iter().enumerate() {
                if !b {
                    self.block.push(((self.block_count << 16) + idx) as u32);
                }
            }
            self.block_count += 1;
            &self.block
        }
    }
//! ---- annotated ----
    pub fn next(&mut self) -> (r: &[u32])
        requires old(self).wf(),
        ensures
            final(self).wf(), final(self).sm() == old(self).sm(),
            old(self).cnt() == 65536 ==> r@.len() == 0 && final(self).cnt() == 65536,
            old(self).cnt() < 65536 ==> final(self).cnt() == old(self).cnt() + 1 && primes_of_block(r@, old(self).cnt() * 65536),
    {
        if self.block_count == 65536 {
            // The end
            self.block.clear();
            &self.block
        } else if self.block_count == 0 {
            self.block_count += 1;
            proof { lemma_block0(self.smallprimes@); }
            &self.smallprimes
        } else {
            // sieve a block
            let ghost sm = self.smallprimes@;
            let ghost bc = self.block_count as int;
            let ghost base = bc * 65536;
            ol_fill(&mut self.sieve, false);
            for verif_z in 0..ol_min_usize(self.smallprimes.len(), self.offsets.len())
                invariant
                    self.smallprimes@ == sm, self.block_count as int == bc, 1 <= bc <= 65535, base == bc * 65536,
                    small_table(sm), self.offsets@.len() == sm.len(),
                    forall|j: int| 0 <= j < verif_z ==> (#[trigger] self.offsets@[j]) < sm[j] && (base + 65536 + self.offsets@[j]) % (sm[j] as int) == 0,
                    forall|j: int| verif_z <= j < sm.len() ==> (#[trigger] self.offsets@[j]) < sm[j] && (base + self.offsets@[j]) % (sm[j] as int) == 0,
                    forall|k: int| 0 <= k < 65536 && #[trigger] self.sieve@[k] ==> hit(sm, verif_z as int, base, k),
                    forall|k: int, j: int| 0 <= k < 65536 && 0 <= j < verif_z && #[trigger] marks(sm[j] as nat, base, k) ==> self.sieve@[k],
            {
                let p = self.smallprimes[verif_z];
                let mut o = self.offsets[verif_z] as usize;
                let p = p as usize;
                let ghost sv0 = self.sieve@;
                let ghost offs0 = self.offsets@;
                let ghost pn = p as nat;
                proof {
                    assert(is_prime_dv(sm[verif_z as int] as nat));
                    assert forall|k: int| 0 <= k < 65536 && k < o && marks(pn, base, k) implies #[trigger] self.sieve@[k] by {
                        lemma_window0(pn, base, o as int, k);
                    }
                }
                loop
                    invariant
                        self.smallprimes@ == sm, self.block_count as int == bc, self.offsets@ == offs0, base >= 65536,
                        2 <= p < 65536, pn == p, o < 65536 + p, (base + o) % (p as int) == 0, sv0.len() == 65536,
                        forall|k: int| 0 <= k < 65536 && #[trigger] self.sieve@[k] ==> sv0[k] || marks(pn, base, k),
                        forall|k: int| 0 <= k < 65536 && #[trigger] sv0[k] ==> self.sieve@[k],
                        forall|k: int| 0 <= k < 65536 && k < o && marks(pn, base, k) ==> #[trigger] self.sieve@[k],
                    decreases 0x4_0000 - o,
                {
                    let o3p = o + 3 * p;
                    if o3p >= self.sieve.len() {
                        break;
                    }
                    let ghost sv1 = self.sieve@;
                    {
                        self.sieve[o] = true;
                        self.sieve[o + p] = true;
                        self.sieve[o + 2 * p] = true;
                    }
                    proof {
                        lemma_next_multiple(pn, base, o as int);
                        lemma_next_multiple(pn, base, o + p);
                        lemma_next_multiple(pn, base, o + 2 * p);
                        assert forall|k: int| 0 <= k < 65536 && k < o3p && marks(pn, base, k) implies #[trigger] self.sieve@[k] by {
                            if k >= o { lemma_window3(pn, base, o as int, k); }
                        }
                    }
                    o = o3p;
                }
                while o < self.sieve.len()
                    invariant
                        self.smallprimes@ == sm, self.block_count as int == bc, self.offsets@ == offs0, base >= 65536,
                        2 <= p < 65536, pn == p, o < 65536 + p, (base + o) % (p as int) == 0, sv0.len() == 65536,
                        forall|k: int| 0 <= k < 65536 && #[trigger] self.sieve@[k] ==> sv0[k] || marks(pn, base, k),
                        forall|k: int| 0 <= k < 65536 && #[trigger] sv0[k] ==> self.sieve@[k],
                        forall|k: int| 0 <= k < 65536 && k < o && marks(pn, base, k) ==> #[trigger] self.sieve@[k],
                    decreases 0x4_0000 - o,
                {
                    self.sieve[o] = true;
                    proof {
                        lemma_next_multiple(pn, base, o as int);
                        assert forall|k: int| 0 <= k < 65536 && k < o + p && marks(pn, base, k) implies #[trigger] self.sieve@[k] by {
                            if k >= o { lemma_window1(pn, base, o as int, k); }
                        }
                    }
                    o += p;
                }
                self.offsets[verif_z] = o as u32 - 65536;
                proof {
                    assert(base + 65536 + (o - 65536) == base + o);
                    assert forall|k: int| 0 <= k < 65536 && #[trigger] self.sieve@[k] implies hit(sm, verif_z + 1, base, k) by {
                        if sv0[k] {
                            let j = choose|j: int| 0 <= j < verif_z && #[trigger] marks(sm[j] as nat, base, k);
                            assert(marks(sm[j] as nat, base, k));
                        } else {
                            assert(marks(sm[verif_z as int] as nat, base, k));
                        }
                    }
                }
            }
            self.block.clear();
            let ghost svf = self.sieve@;
            let ghost offsf = self.offsets@;
            for idx in 0..self.sieve.len()
                invariant
                    self.smallprimes@ == sm, self.block_count as int == bc, 1 <= bc <= 65535, base == bc * 65536,
                    small_table(sm), self.offsets@ == offsf, offsf.len() == sm.len(), self.sieve@ == svf,
                    forall|j: int| 0 <= j < sm.len() ==> (#[trigger] offsf[j]) < sm[j] && (base + 65536 + offsf[j]) % (sm[j] as int) == 0,
                    forall|k: int| 0 <= k < 65536 && #[trigger] svf[k] ==> hit(sm, sm.len() as int, base, k),
                    forall|k: int, j: int| 0 <= k < 65536 && 0 <= j < sm.len() && #[trigger] marks(sm[j] as nat, base, k) ==> svf[k],
                    all_prime(self.block@), increasing(self.block@),
                    forall|k: int| 0 <= k < self.block@.len() ==> base <= (#[trigger] self.block@[k]) < base + idx,
                    forall|q: nat| #[trigger] is_prime_dv(q) && base <= q < base + idx ==> in_list(self.block@, q as int),
            {
                let b = &self.sieve[idx];
                let ghost bl0 = self.block@;
                proof {
                    lemma_segment_prime(sm, base, idx as int);
                    if !svf[idx as int] {
                        if hit(sm, sm.len() as int, base, idx as int) {
                            let j = choose|j: int| 0 <= j < sm.len() && #[trigger] marks(sm[j] as nat, base, idx as int);
                            assert(marks(sm[j] as nat, base, idx as int));
                        }
                    }
                    let c = self.block_count;
                    assert(c << 16 == c * 65536) by (bit_vector) requires c <= 65535;
                }
                if !b {
                    self.block.push(((self.block_count << 16) + idx) as u32);
                    proof {
                        let x = (base + idx) as u32;
                        assert(self.block@ == bl0.push(x));
                        assert forall|q: nat| #[trigger] is_prime_dv(q) && base <= q < base + idx + 1 implies in_list(self.block@, q as int) by {
                            if q < base + idx { lemma_in_list_push(bl0, x, q as int); }
                            else { assert(self.block@[bl0.len() as int] as int == q); }
                        }
                    }
                }
            }
            self.block_count += 1;
            proof {
                assert(self.offsets_for(bc + 1)) by {
                    assert forall|j: int| 0 <= j < self.sm().len() implies (#[trigger] self.offs()[j]) < self.sm()[j] && ((bc + 1) * 65536 + self.offs()[j]) % (self.sm()[j] as int) == 0 by {
                        assert((bc + 1) * 65536 == base + 65536);
                        assert(self.offs()[j] == offsf[j]);
                    }
                }
            }
            &self.block
        }
    }
