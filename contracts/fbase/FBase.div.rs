//! unit: {"container": "impl FBase", "file": "src/fbase.rs", "kind": "fn", "name": "div", "props": ["C12"]}
//! ---- pinned ----
    pub fn div(&self, idx: usize) -> &arith::Dividers {
        &self.divs[idx]
    }
//! ---- annotated ----
    pub fn div(&self, idx: usize) -> (r: &arith::Dividers)
        requires idx < self.sd().len()
        ensures *r == self.sd()[idx as int]
    {
        &self.divs[idx]
    }
