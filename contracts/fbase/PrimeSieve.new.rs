//! unit: {"container": "impl PrimeSieve", "file": "src/fbase.rs", "hoist": true, "kind": "fn", "name": "new", "props": ["C17", "C03"]}
//! ---- pinned ----
    pub fn new() -> Self {
        let smalls = primes(6542);
        assert_eq!(smalls.last(), Some(&65521));
        // If 65535%p = k, 65536 + (p-1-k) is a multiple of p
        let offsets = smalls.iter().map(|&p| p - 1 - 65535 % p).collect();
        Self {
            smallprimes: smalls.into_boxed_slice(),
            block: vec![],
            block_count: 0,
            offsets,
            sieve: [false; 1 << 16],
        }
    }
//! ---- annotated ----
    pub fn new() -> (r: Self)
        ensures r.wf(), r.cnt() == 0,
    {
        let smalls = primes(6542);
        ol_assert_last(&smalls, 65521);
        proof {
            assert forall|i: int| 0 <= i < smalls@.len() implies #[trigger] smalls@[i] >= 1 && smalls@[i] < 65536 by {
                assert(is_prime_dv(smalls@[i] as nat));
                if i < smalls@.len() - 1 { assert(smalls@[i] < smalls@[smalls@.len() - 1]); }
            }
            assert forall|q: nat| #[trigger] is_prime_dv(q) && q < 65536 implies in_list(smalls@, q as int) by {
                if q > 65521 { lemma_no_prime_65522_65535(q); }
            }
            assert(small_table(smalls@));
        }
        // If 65535%p = k, 65536 + (p-1-k) is a multiple of p
        let offsets = ol_first_offsets(&smalls);
        proof {
            assert forall|j: int| 0 <= j < smalls@.len() implies (#[trigger] offsets@[j]) < smalls@[j] && (1 * 65536 + offsets@[j]) % (smalls@[j] as int) == 0 by {
                lemma_first_offset(smalls@[j] as nat);
            }
        }
        Self {
            smallprimes: smalls.into_boxed_slice(),
            block: vec![],
            block_count: 0,
            offsets,
            sieve: [false; 1 << 16],
        }
    }
