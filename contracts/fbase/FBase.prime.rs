//! unit: {"container": "impl FBase", "file": "src/fbase.rs", "kind": "fn", "name": "prime", "props": ["C12"]}
//! ---- pinned ----
    pub fn prime<'a>(&'a self, idx: usize) -> Prime<'a> {
        Prime {
            p: self.primes[idx] as u64,
            r: self.sqrts[idx] as u64,
            div: &self.divs[idx],
        }
    }
//! ---- annotated ----
    pub fn prime<'a>(&'a self, idx: usize) -> (r: Prime<'a>)
        requires self.wf(), idx < self.sp().len()
        ensures r.p == self.sp()[idx as int] as u64, r.r == self.sr()[idx as int] as u64, *r.div == self.sd()[idx as int],
    {
        Prime {
            p: self.primes[idx] as u64,
            r: self.sqrts[idx] as u64,
            div: &self.divs[idx],
        }
    }
