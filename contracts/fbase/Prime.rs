//! unit: {"file": "src/fbase.rs", "kind": "struct", "name": "Prime", "props": ["C12"]}
//! ---- pinned ----
#[derive(Clone, Debug)]
pub struct Prime<'a> {
    pub p: u64, // prime number
    pub r: u64, // square root of N
    pub div: &'a arith::Dividers,
}
//! ---- annotated ----
#[derive(Clone, Debug)]
pub struct Prime<'a> {
    pub p: u64, // prime number
    pub r: u64, // square root of N
    pub div: &'a arith::Dividers,
}
