//! unit: {"file": "src/fbase.rs", "kind": "fn", "name": "primes", "props": ["C17", "C03"]}
//! ---- pinned ----
pub fn primes(n: u32) -> Vec<u32> {
    // The n-th prime is always less than n * n.bit_length()
    // except for n = 1.
    let bound = max(100, n * (32 - n.leading_zeros())) as usize;
    // sieve[i] says that 2i+1 is composite
    let mut sieve = vec![false; bound / 2];
    let mut primes = Vec::with_capacity(n as usize);
    primes.push(2);
    if n <= 1 {
        // The loop below only checks the length after pushing an odd prime.
        primes.truncate(n as usize);
        return primes;
    }
    for i in 1..sieve.len() {
        if !sieve[i] {
            let p = 2 * i + 1;
            primes.push(p as u32);
            if primes.len() == n as usize {
                break;
            }
            // No need to sieve numbers above sqrt(bound)
            if p as u64 * p as u64 > bound as u64 {
                continue;
            }
            // First odd multiple is 3p.
            let mut k = p + p / 2;
            while k < sieve.len() {
                sieve[k] = true;
                k += p
            }
        }
    }
    primes
}
//! ---- annotated ----
pub fn primes(n: u32) -> (primes: Vec<u32>)
    requires n <= 0x400_0000,   // n * bitlen(n) must fit u32
    ensures
        all_prime(primes@), increasing(primes@), complete(primes@),
        primes.len() <= n, n >= 1 ==> primes.len() >= 1,
        n >= 2 ==> primes.len() == n || exhaustive(primes@, primes_bound(n)),
        forall|idx: int| 0 <= idx < primes.len() ==> (#[trigger] primes[idx] as int) < primes_bound(n),
{
    // The n-th prime is always less than n * n.bit_length()
    // except for n = 1.
    proof {
        axiom_u32_leading_zeros(n);
        if n > 0 { assert(u32_leading_zeros(n) >= 5) by { lemma_lz_bound(n); } }
        lemma_mul_le2(n as int, 0x400_0000, 32 - u32_leading_zeros(n) as int, 27);
        lemma_mul_nonneg(n as int, 32 - u32_leading_zeros(n) as int);
    }
    let bound = max(100, n * (32 - n.leading_zeros())) as usize;
    // sieve[i] says that 2i+1 is composite
    let mut sieve = vec![false; bound / 2];
    let mut primes = Vec::with_capacity(n as usize);
    primes.push(2);
    let ghost len = sieve.len() as int;
    proof {
        assert(is_prime_dv(2)) by { assert forall|d: nat| 2 <= d < 2 implies !#[trigger] divides(d, 2) by {} };
        assert(primes@[0] as int == 2);
    }
    if n <= 1 {
        // The loop below only checks the length after pushing an odd prime.
        primes.truncate(n as usize);
        proof {
            if n == 1 { assert(primes@ =~= seq![2u32]); assert(in_list(primes@, 2)) by { assert(primes@[0] as int == 2); }
                assert forall|q: nat| #[trigger] is_prime_dv(q) && q <= 2 implies in_list(primes@, q as int) by { } }
        }
        return primes;
    }
    let mut verif_it_i = 1; let verif_end_i = sieve.len(); while verif_it_i < verif_end_i
        invariant_except_break
            forall|idx: int| 0 <= idx < primes.len() ==> (#[trigger] primes[idx] as int) < 2 * verif_it_i + 1,
            marked_ok(sieve@),
            forall|j: int| 1 <= j < verif_it_i && is_prime_dv((2 * j + 1) as nat) && (2 * j + 1) * (2 * j + 1) <= bound ==> #[trigger] covered(sieve@, (2 * j + 1) as nat),
            forall|j: int| 1 <= j < verif_it_i && #[trigger] is_prime_dv((2 * j + 1) as nat) ==> in_list(primes@, 2 * j + 1),
            primes.len() < n,
        invariant
            verif_end_i == sieve.len(), 1 <= verif_it_i <= verif_end_i, sieve.len() == len, len == bound as int / 2, 100 <= bound < 0x1_0000_0000,
            primes.len() >= 1, primes[0] == 2, all_prime(primes@), increasing(primes@), n >= 2, primes.len() <= n,
            forall|idx: int| 0 <= idx < primes.len() ==> (#[trigger] primes[idx] as int) < 2 * verif_end_i,
        ensures all_prime(primes@), increasing(primes@), primes.len() >= 1, primes[0] == 2, primes.len() <= n,
            complete(primes@) || (
                (forall|idx: int| 0 <= idx < primes.len() ==> (#[trigger] primes[idx] as int) < 2 * verif_end_i + 1)
                && (forall|j: int| 1 <= j < verif_end_i && #[trigger] is_prime_dv((2 * j + 1) as nat) ==> in_list(primes@, 2 * j + 1))),
            primes.len() == n || (forall|j: int| 1 <= j < verif_end_i && #[trigger] is_prime_dv((2 * j + 1) as nat) ==> in_list(primes@, 2 * j + 1)),
            forall|idx: int| 0 <= idx < primes.len() ==> (#[trigger] primes[idx] as int) < 2 * verif_end_i,
        decreases verif_end_i - verif_it_i
    {
        let i = verif_it_i; verif_it_i += 1;
        if !sieve[i] {
            let p = 2 * i + 1;
            let ghost pv0 = primes@;
            proof {
                // 2i+1 is prime: otherwise a prime d with d*d <= 2i+1 divides it and was processed
                let nn = (2 * i + 1) as nat;
                if !is_prime_dv(nn) {
                    let d = lemma_prime_factor_le_sqrt(nn);
                    if d == 2 { lemma_fundamental_div_mod(nn as int, 2); assert(false); }
                    let j = lemma_odd_prime_shape(d);
                    assert(j < i);
                    lemma_mul_le2(d as int, d as int, 1, 1);
                    assert((2 * j + 1) * (2 * j + 1) <= bound);
                    assert(d == (2 * j + 1) as nat);
                    assert(covered(sieve@, (2 * j + 1) as nat));
                    lemma_mult_to_idx(d, i as nat);
                    // i >= d + d/2 because d*d <= 2i+1 and d >= 3
                    lemma_mul_le(3, d as int, d as int);
                    assert(i as int >= d as int + d as int / 2);
                    assert(sieve@[i as int]);
                    assert(false);
                }
            }
            primes.push(p as u32);
            proof {
                assert(primes@ == pv0.push(p as u32));
                assert forall|j: int| 1 <= j < verif_it_i && #[trigger] is_prime_dv((2 * j + 1) as nat) implies in_list(primes@, 2 * j + 1) by {
                    if j < i { lemma_in_list_push(pv0, p as u32, 2 * j + 1); }
                    else { assert(primes@[primes.len() - 1] as int == 2 * j + 1); }
                }
            }
            if primes.len() == n as usize {
                proof {
                    assert forall|q: nat| #[trigger] is_prime_dv(q) && q <= primes@[primes.len() - 1] implies in_list(primes@, q as int) by {
                        if q == 2 { assert(primes@[0] as int == 2); }
                        else { let j = lemma_odd_prime_shape(q); assert(j < verif_it_i); assert(is_prime_dv((2 * j + 1) as nat)); }
                    }
                }
                break;
            }
            // No need to sieve numbers above sqrt(bound)
            proof { lemma_mul_le2(p as int, 0xffff_ffff, p as int, 0xffff_ffff); }
            if p as u64 * p as u64 > bound as u64 {
                continue;
            }
            // First odd multiple is 3p.
            let mut k = p + p / 2;
            proof {
                lemma_mod_multiples_vanish(1, (p / 2) as int, p as int);
                lemma_small_mod((p / 2) as nat, p as nat);
                lemma_mul_one(p as int);
                assert((p + p / 2) as int == (p as int) * 1 + (p / 2) as int);
            }
            while k < sieve.len()
                invariant
                    sieve.len() == len, len < 0x1_0000_0000, p == 2 * i + 1, p >= 3, p % 2 == 1, (p as int) < 0x1_0000_0000,
                    k >= p + p / 2, (k as nat) % (p as nat) == (p / 2) as nat,
                    marked_ok(sieve@),
                    forall|j: int| 1 <= j < i && is_prime_dv((2 * j + 1) as nat) && (2 * j + 1) * (2 * j + 1) <= bound ==> #[trigger] covered(sieve@, (2 * j + 1) as nat),
                    forall|kk: int| 0 <= kk < len && kk < k && kk >= p + p / 2 && (kk as nat) % (p as nat) == (p / 2) as nat ==> #[trigger] sieve@[kk],
                decreases len + p - k
            {
                let ghost sv0 = sieve@;
                sieve[k] = true;
                proof {
                    lemma_idx_to_mult(p as nat, k as nat);
                    let m = (2 * k + 1) as nat;
                    assert(divides(p as nat, m));
                    assert(2 <= p < m);
                    assert(!is_prime_dv(m));
                    assert forall|kk: int| 0 <= kk < sieve@.len() && #[trigger] sieve@[kk] implies !is_prime_dv((2 * kk + 1) as nat) by {
                        if kk != k { assert(sv0[kk]); }
                    }
                    assert forall|j: int| 1 <= j < i && is_prime_dv((2 * j + 1) as nat) && (2 * j + 1) * (2 * j + 1) <= bound implies #[trigger] covered(sieve@, (2 * j + 1) as nat) by {
                        assert(covered(sv0, (2 * j + 1) as nat));
                        assert forall|kk: int| 0 <= kk < sieve@.len() && kk >= (2 * j + 1) + (2 * j + 1) / 2 && (kk as nat) % ((2 * j + 1) as nat) == ((2 * j + 1) as nat) / 2 implies #[trigger] sieve@[kk] by {
                            if kk != k { assert(sv0[kk]); }
                        }
                    }
                    assert forall|kk: int| 0 <= kk < len && kk < k + p && kk >= p + p / 2 && (kk as nat) % (p as nat) == (p / 2) as nat implies #[trigger] sieve@[kk] by {
                        if kk > k { lemma_same_residue_close(p as nat, k as nat, kk as nat); }
                        if kk < k { assert(sv0[kk]); }
                    }
                    lemma_add_mod_noop(p as int, k as int, p as int);
                    lemma_mod_self_0(p as int);
                    lemma_small_mod(((k as nat) % (p as nat)) as nat, p as nat);
                    assert((p as int + k as int) % (p as int) == (k as int) % (p as int));
                }
                k += p
            }
            proof {
                assert(covered(sieve@, p as nat));
                assert(p as nat == (2 * i + 1) as nat);
            }
        } else {
            proof {
                // marked => not prime, so nothing to add for j = i
                assert(!is_prime_dv((2 * i + 1) as nat));
            }
        }
    }
    proof {
        // normal exit or break: completeness
        if !complete(primes@) {
            assert forall|q: nat| #[trigger] is_prime_dv(q) && q <= primes@[primes.len() - 1] implies in_list(primes@, q as int) by {
                if q == 2 { assert(primes@[0] as int == 2); }
                else {
                    let j = lemma_odd_prime_shape(q);
                    assert((primes@[primes.len() - 1] as int) < 2 * verif_end_i + 1);
                    assert(j < verif_end_i);
                    assert(is_prime_dv((2 * j + 1) as nat));
                }
            }
            assert(false);
        }
        if primes.len() != n {
            assert forall|q: nat| #[trigger] is_prime_dv(q) && q < 2 * (primes_bound(n) / 2) implies in_list(primes@, q as int) by {
                if q == 2 { assert(primes@[0] as int == 2); }
                else {
                    let j = lemma_odd_prime_shape(q);
                    assert(j < verif_end_i);
                    assert(is_prime_dv((2 * j + 1) as nat));
                }
            }
        }
    }
    primes
}
