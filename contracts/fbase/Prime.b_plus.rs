//! unit: {"container": "impl<'a> Prime<'a>", "file": "src/fbase.rs", "kind": "fn", "name": "b_plus", "props": ["C12"]}
//! ---- pinned ----
    /// The unique normalized value of b for a reduced binary
    /// quadratic form with norm p and discriminant N.
    ///
    /// This is the unique odd square root of N modulo p.
    ///
    /// If even is true, the discriminant is 4N and the even
    /// square root of 4N is returned.
    pub fn b_plus(&self, even: bool) -> u64 {
        let r = self.r;
        if even {
            // Discriminant 4D, prime initialized with D
            let r = self.div.modu63(2 * r);
            if r % 2 == 0 {
                r
            } else {
                self.p - r
            }
        } else {
            // Odd discriminant D
            if r % 2 == 1 {
                r
            } else {
                self.p - r
            }
        }
    }
//! ---- annotated ----
    /// The unique normalized value of b for a reduced binary
    /// quadratic form with norm p and discriminant N.
    ///
    /// This is the unique odd square root of N modulo p.
    ///
    /// If even is true, the discriminant is 4N and the even
    /// square root of 4N is returned.
    pub fn b_plus(&self, even: bool) -> (b: u64)
        requires self.div.wf(), self.div.pv() == self.p as int, self.r < self.p, self.p < 0x100_0000,
        ensures
            b <= self.p,
            // b is ±r (odd discriminant) resp. ±2r (discriminant 4D) modulo p, with the requested parity
            !even ==> (b == self.r || b == self.p - self.r) && (self.r != 0 ==> b % 2 == 1),
            even ==> (cong(b as int, 2 * self.r as int, self.p as int) || cong(b as int, -2 * self.r as int, self.p as int))
                && (2 * self.r as int % (self.p as int) != 0 ==> b % 2 == 0),
    {
        let r = self.r;
        proof { self.div.lemma_wf_facts(); }
        if even {
            // Discriminant 4D, prime initialized with D
            proof { let tr: u64 = (2 * r) as u64; assert(tr >> 63 == 0) by (bit_vector) requires tr < 0x200_0000u64; }
            let r = self.div.modu63(2 * r);
            proof {
                let pi = self.p as int;
                lemma_mod_bound(2 * self.r as int, pi);
                lemma_cong_mod(2 * self.r as int, pi);
                lemma_fundamental_div_mod(2 * self.r as int, pi);
                let q = (2 * self.r as int) / pi;
                lemma_distrib_l(pi, 1, q); lemma_mul_one(pi);
                assert((pi - r as int) - (-2 * self.r as int) == pi * (1 + q));
                lemma_mod_multiples_basic(1 + q, pi); lemma_mul_comm(1 + q, pi);
                lemma_cong_sub(pi - r as int, -2 * self.r as int, pi);
            }
            if r % 2 == 0 {
                r
            } else {
                self.p - r
            }
        } else {
            // Odd discriminant D
            if r % 2 == 1 {
                r
            } else {
                self.p - r
            }
        }
    }
