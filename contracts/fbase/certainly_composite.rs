//! unit: {"file": "src/fbase.rs", "kind": "fn", "name": "certainly_composite", "props": ["C06", "C03"]}
//! ---- pinned ----
/// Returns whether n is composite through an Euler witness.
/// The use case is a product of 2 odd primes (these are never
/// Carmichael numbers).
///
/// Random testing on 48-bit semiprimes show that 2 is almost
/// never an Euler liar (probability < 1e-6), but for example
/// 2^(n-1) = 1 mod n for n = 173142166387457
pub fn certainly_composite(n: u64) -> bool {
    if n % 2 == 0 {
        return n > 2;
    }
    // Compute R^n in Montgomery arithmetic.
    let ninv = arith_montgomery::mg_2adic_inv(n);
    let mut x = 2;
    let mut sq = arith_montgomery::mg_mul(n, ninv, x, x);
    let mut exp = n / 2;
    while exp > 0 {
        if exp & 1 == 1 {
            x = arith_montgomery::mg_mul(n, ninv, x, sq);
        }
        sq = arith_montgomery::mg_mul(n, ninv, sq, sq);
        exp /= 2;
    }
    // If n is prime, x^n==x
    x != 2
}
//! ---- annotated ----
pub fn certainly_composite(n: u64) -> (r: bool)
    ensures
        // never calls a prime composite; the even rule is exact
        r ==> !is_prime(n as nat),
        n % 2 == 0 ==> r == (n > 2),
{
    if n % 2 == 0 {
        proof { if n > 2 { lemma_even_not_prime(n as nat); } }
        return n > 2;
    }
    // Compute R^n in Montgomery arithmetic.
    let ninv = arith_montgomery::mg_2adic_inv(n);
    let mut x = 2;
    proof {
        assert(2int * 2int < n as int * two64()) by (nonlinear_arith) requires n >= 1, two64() > 4;
        lemma_cc_init(n as int);
    }
    let mut sq = arith_montgomery::mg_mul(n, ninv, x, x);
    let mut exp = n / 2;
    let ghost mut ex: nat = 1;
    let ghost mut es: nat = 2;
    proof { lemma_cc_mul(2, 1, 2, 1, sq as int, n as int); }
    while exp > 0
        invariant
            n % 2 == 1, (n as int * ninv as int + 1) % two64() == 0,
            sq < n, x < n || x == 2,
            cc_rep(x as int, ex, n as int), cc_rep(sq as int, es, n as int),
            ex >= 1, es >= 2, ex + es * exp == n,
        decreases exp,
    {
        proof {
            lemma_mul_lt(sq as int, n as int, sq as int, two64());
            if x < n { lemma_mul_lt(x as int, n as int, sq as int, two64()); }
            else { lemma_mul_lt(sq as int, n as int, 2, two64()); lemma_mul_comm(sq as int, 2); assert((x as int) * (sq as int) == 2 * (sq as int)); }
            assert((exp & 1 == 1) == (exp % 2 == 1)) by (bit_vector);
        }
        let ghost x0 = x;
        let ghost sq0 = sq;
        if exp & 1 == 1 {
            x = arith_montgomery::mg_mul(n, ninv, x, sq);
            proof { lemma_cc_mul(x0 as int, ex, sq0 as int, es, x as int, n as int); }
        }
        sq = arith_montgomery::mg_mul(n, ninv, sq, sq);
        proof {
            lemma_cc_mul(sq0 as int, es, sq0 as int, es, sq as int, n as int);
            // ex + es exp is preserved
            let h = (exp / 2) as nat;
            if exp % 2 == 1 {
                assert(ex + es + (es + es) * h == ex + es * exp) by (nonlinear_arith) requires exp == 2 * h + 1;
                ex = ex + es;
            } else {
                assert(ex + (es + es) * h == ex + es * exp) by (nonlinear_arith) requires exp == 2 * h;
            }
            es = es + es;
        }
        exp /= 2;
    }
    proof {
        assert(ex == n) by { assert(es * 0 == 0) by (nonlinear_arith); };
        if is_prime(n as nat) {
            if x >= n { assert(x == 2 && n <= 2); assert(false); }
            lemma_cc_final(x as int, n as nat);
        }
    }
    // If n is prime, x^n==x
    x != 2
}
