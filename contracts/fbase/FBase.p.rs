//! unit: {"container": "impl FBase", "file": "src/fbase.rs", "kind": "fn", "name": "p", "props": ["C12"]}
//! ---- pinned ----
    pub fn p(&self, idx: usize) -> u32 {
        self.primes[idx]
    }
//! ---- annotated ----
    pub fn p(&self, idx: usize) -> (r: u32)
        requires idx < self.sp().len()
        ensures r == self.sp()[idx as int]
    {
        self.primes[idx]
    }
