//! unit: {"container": "impl FBase", "file": "src/fbase.rs", "kind": "fn", "name": "r", "props": ["C12"]}
//! ---- pinned ----
    pub fn r(&self, idx: usize) -> u32 {
        self.sqrts[idx]
    }
//! ---- annotated ----
    pub fn r(&self, idx: usize) -> (r: u32)
        requires idx < self.sr().len()
        ensures r == self.sr()[idx as int]
    {
        self.sqrts[idx]
    }
