//! unit: {"file": "src/fbase.rs", "kind": "struct", "name": "FBase", "props": ["C12"]}
//! ---- pinned ----
/// A factor base consisting of 24-bit primes related to an input number N,
/// along with useful precomputed data.
/// To help with memory locality, each additional information is held
/// in a separate vector.
#[derive(Clone, Debug)]
pub struct FBase {
    pub primes: Vec<u32>,
    // Square roots of N.
    pub sqrts: Vec<u32>,
    pub divs: Vec<arith::Dividers>,
    // idx_by_log[i] is the index of the first prime
    // such that bit_length >= i.
    pub idx_by_log: [usize; 24 + 2],
    revidx: Box<[u32]>,
}
//! ---- annotated ----
/// A factor base consisting of 24-bit primes related to an input number N,
/// along with useful precomputed data.
/// To help with memory locality, each additional information is held
/// in a separate vector.
#[derive(Clone, Debug)]
pub struct FBase {
    pub primes: Vec<u32>,
    // Square roots of N.
    pub sqrts: Vec<u32>,
    pub divs: Vec<arith::Dividers>,
    // idx_by_log[i] is the index of the first prime
    // such that bit_length >= i.
    pub idx_by_log: [usize; 24 + 2],
    revidx: Box<[u32]>,
}
