//! unit: {"container": "impl FBase", "file": "src/fbase.rs", "kind": "fn", "name": "len", "props": ["C12"]}
//! ---- pinned ----
    pub fn len(&self) -> usize {
        self.primes.len()
    }
//! ---- annotated ----
    pub fn len(&self) -> (r: usize)
        ensures r == self.sp().len()
    {
        self.primes.len()
    }
