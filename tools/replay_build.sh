#!/bin/sh
# usage: replay_build.sh <repo dir> <scratch dir> [--release]  -> builds yq-replay against that repo
set -e
REPO="$1"; OUT="$2"; shift 2
mkdir -p "$OUT/src"
sed "s#@REPO@#$REPO#" /verif/replay/Cargo.toml.in > "$OUT/Cargo.toml"
cp /verif/replay/src/*.rs "$OUT/src/"
cd "$OUT"
CARGO_NET_OFFLINE=true cargo build --offline "$@" 2>&1 | tail -3
