#!/bin/sh
# usage: replay_build.sh <repo dir> [--release]  -> builds yq-replay against a copy of that repo (+ replay/inject probes) and
# prints the path of the executable
REPO="$1"; shift
PROFILE=dev; [ "$1" = "--release" ] && PROFILE=release
cd "$(dirname "$0")" && python3 -c "
import sys
sys.path.insert(0, '.')
from yqv import replay
b = replay.build('$REPO', '$PROFILE')
print(b[0] if b else 'BUILD FAILED')
"
