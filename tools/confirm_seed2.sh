#!/bin/bash
# usage: confirm_seed2.sh <agent output dir> <PROP-nK> [check-prop]
# Records a change produced by a mutation sub-agent (patch.diff, demo.diff, notes.md, its own logs of the test suite and of
# the demonstration with / without the change) under /verif/seeded/<PROP-nK> and runs our check on /repo + patch.
SRC=$1; ID=$2; PROP=${3:-${ID%%-*}}
OUT=/verif/seeded/$ID
mkdir -p $OUT
cp $SRC/$ID/patch.diff $SRC/$ID/demo.diff $SRC/$ID/notes.md $OUT/ 2>/dev/null
for f in fulltest.log demo_with.log demo_without.log; do [ -f $SRC/$ID/$f ] && tail -c 3000 $SRC/$ID/$f > $OUT/$f; done
S=/var/tmp/yq-seed-$$; rm -rf $S; mkdir -p $S; rsync -a --exclude target --exclude .git /repo/ $S/
if ! (cd $S && git apply $OUT/patch.diff 2>/tmp/apply_err.txt); then echo "$ID: patch does not apply to the current tree: $(head -2 /tmp/apply_err.txt)"; rm -rf $S; exit 3; fi
cd /verif && YQV_EVIDENCE=/var/tmp/yq-scratch-evidence YQV_REPLAYS=/var/tmp/yq-scratch-replays YQV_REPO=$S ./check $PROP > /tmp/check_$ID.txt 2>&1; RC=$?
rm -rf $S
grep -E "^(VIOLATION|UNDECIDED|KNOWN-FINDING|property|obligation failed)" /tmp/check_$ID.txt | cut -c1-300 > $OUT/check_output.txt
python3 - "$OUT" "$PROP" "$ID" "$RC" <<'PY'
import json,sys,re,os
out,prop,mid,rc=sys.argv[1:5]
def last(fn, pat):
    p=os.path.join(out,fn)
    if not os.path.exists(p): return None
    m=re.findall(pat, open(p, errors='replace').read())
    return m[-1] if m else None
json.dump({'property':prop,'id':mid.split('-')[1],'breaks':prop,
  'tests_with_change': last('fulltest.log', r'test result: [^\n]*passed[^\n]*'),
  'demo':'demo.diff (see notes.md for the command)',
  'demo_with_change': last('demo_with.log', r'test result: [^\n]*') , 'demo_without_change': last('demo_without.log', r'test result: [^\n]*'),
  'our_check_exit':int(rc),'our_check_output':open(out+'/check_output.txt').read().split('\n')[:12],
  'what_it_needs_to_manifest':'see notes.md','ran':'tools/confirm_seed2.sh (tests and demonstration run by the sub-agent, logs kept)'},open(out+'/meta.json','w'),indent=1)
print(mid,'check rc',rc, '|', open(out+'/check_output.txt').read().split('\n')[0][:160])
PY
