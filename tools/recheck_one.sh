#!/bin/bash
# re-run our check on a recorded seeded change and update its meta.json
ID=$1; PROP=${2:-${ID%%-*}}
S=/var/tmp/yq-seed-$$; rm -rf $S; mkdir -p $S; rsync -a --exclude target --exclude .git /repo/ $S/
(cd $S && git apply /verif/seeded/$ID/patch.diff) || { echo "$ID: patch does not apply"; rm -rf $S; exit 3; }
cd /verif && YQV_EVIDENCE=/var/tmp/yq-scratch-evidence-$ID YQV_REPLAYS=/var/tmp/yq-scratch-replays YQV_REPO=$S ./check $PROP > /tmp/check_$ID.txt 2>&1; RC=$?
rm -rf $S /var/tmp/yq-scratch-evidence-$ID
grep -E "^(VIOLATION|UNDECIDED|KNOWN-FINDING|property|obligation failed)" /tmp/check_$ID.txt | cut -c1-300 > /verif/seeded/$ID/check_output.txt
python3 - $ID $RC <<'PY'
import json,sys
i,rc=sys.argv[1],int(sys.argv[2])
p='/verif/seeded/%s/meta.json'%i
m=json.load(open(p)); 
if m.get('our_check_exit')==0 and rc==1: m['first_contact']='missed (exit 0); caught after the machinery was extended'
m['our_check_exit']=rc; m['our_check_output']=open('/verif/seeded/%s/check_output.txt'%i).read().split('\n')[:12]
json.dump(m,open(p,'w'),indent=1)
print(i,'rc',rc,[l for l in m['our_check_output'] if l.startswith('obligation')][:1])
PY
