#!/bin/bash
# re-run our checks on every kept seeded change (scratch copy of /repo + patch), update meta.json
for d in /verif/seeded/*/; do
  name=$(basename $d); prop=${name%%-*}
  S=/var/tmp/yq-seed-$$
  rm -rf $S; mkdir -p $S; rsync -a --exclude target --exclude .git /repo/ $S/
  (cd $S && git init -q . 2>/dev/null; git apply $d/patch.diff) || { echo "$name: patch does not apply"; continue; }
  (cd /verif && YQV_EVIDENCE=/var/tmp/yq-scratch-evidence YQV_REPLAYS=/var/tmp/yq-scratch-replays YQV_REPO=$S ./check $prop > /tmp/recheck.txt 2>&1); rc=$?
  grep -E "^(VIOLATION|UNDECIDED|KNOWN-FINDING|property|obligation failed)" /tmp/recheck.txt | cut -c1-300 > $d/check_output.txt
  python3 - "$d" "$rc" <<'PY'
import json,sys
d,rc=sys.argv[1:3]
m=json.load(open(d+'/meta.json')); m['our_check_exit']=int(rc); m['our_check_output']=open(d+'/check_output.txt').read().split('\n')[:12]
json.dump(m,open(d+'/meta.json','w'),indent=1)
PY
  echo "$name rc=$rc $(grep -c VIOLATION $d/check_output.txt) violation lines; $(head -c 200 $d/check_output.txt | head -1)"
  rm -rf $S
done
