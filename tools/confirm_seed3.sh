#!/bin/bash
# usage: confirm_seed3.sh <worktree> <agent output dir> <ID> [check-prop]
# Round 3: confirm an independently produced change MYSELF in the agent's scratch worktree (full suite with the change, the
# demonstration with and without it), record it under /verif/seeded/<ID>, then run our check on a copy of /repo + patch.
WT=$1; SRC=$2; ID=$3; PROP=${4:-${ID%%-*}}
OUT=/verif/seeded/$ID
mkdir -p $OUT
export CARGO_TARGET_DIR=$WT/target CARGO_NET_OFFLINE=true
cd $WT && git checkout -q -- . && git clean -qfd -e target
git apply $SRC/$ID/patch.diff || { echo "$ID: patch does not apply in worktree"; exit 3; }
cargo test --workspace --no-fail-fast --offline > $OUT/fulltest.log 2>&1
TESTS=$(grep -E "^test result" $OUT/fulltest.log | head -1)
NAMES=$(grep -A1 -E "^\+\s*#\[test\]" $SRC/$ID/demo.diff | grep -E "^\+\s*(pub )?fn [A-Za-z0-9_]+" | sed -E 's/^\+\s*(pub )?fn ([A-Za-z0-9_]+).*/\2/' | tr '\n' ' ')
git apply $SRC/$ID/demo.diff || { echo "$ID: demo does not apply with patch"; }
RCW=0; : > $OUT/demo_with.log
for t in $NAMES; do timeout 900 cargo test --offline $t >> $OUT/demo_with.log 2>&1 || RCW=1; done
git checkout -q -- . && git clean -qfd -e target
git apply $SRC/$ID/demo.diff
RCO=0; : > $OUT/demo_without.log
for t in $NAMES; do timeout 900 cargo test --offline $t >> $OUT/demo_without.log 2>&1 || RCO=1; done
git checkout -q -- . && git clean -qfd -e target
for f in fulltest.log demo_with.log demo_without.log; do tail -c 3000 $OUT/$f > $OUT/$f.t && mv $OUT/$f.t $OUT/$f; done
cp $SRC/$ID/patch.diff $SRC/$ID/demo.diff $SRC/$ID/notes.md $OUT/ 2>/dev/null
S=/var/tmp/yq-seed-$$; rm -rf $S; mkdir -p $S; rsync -a --exclude target --exclude .git /repo/ $S/
if ! (cd $S && git apply $OUT/patch.diff 2>/tmp/apply_err_$ID.txt); then echo "$ID: patch does not apply to the current tree"; rm -rf $S; exit 3; fi
unset CARGO_TARGET_DIR
cd /verif && YQV_EVIDENCE=/var/tmp/yq-scratch-evidence-$ID YQV_REPLAYS=/var/tmp/yq-scratch-replays YQV_REPO=$S ./check $PROP > /tmp/check_$ID.txt 2>&1; RC=$?
rm -rf $S /var/tmp/yq-scratch-evidence-$ID
grep -E "^(VIOLATION|UNDECIDED|KNOWN-FINDING|property|obligation failed)" /tmp/check_$ID.txt | cut -c1-300 > $OUT/check_output.txt
python3 - "$OUT" "$PROP" "$ID" "$RC" "$TESTS" "$RCW" "$RCO" "$NAMES" <<'PY'
import json,sys,os
out,prop,mid,rc,tests,rcw,rco,names=sys.argv[1:9]
json.dump({'property':prop,'id':mid.split('-',1)[1],'breaks':prop,'tests_with_change':tests,
  'demo':'demo.diff adds test(s) %s; run with cargo test --offline <name>'%names.strip(),
  'demo_fails_with_change': rcw=='1','demo_passes_without_change': rco=='0',
  'our_check_exit':int(rc),'our_check_output':open(out+'/check_output.txt').read().split('\n')[:12],
  'what_it_needs_to_manifest':'see notes.md',
  'ran':'tools/confirm_seed3.sh: in the scratch worktree: git apply patch.diff; cargo test --workspace --no-fail-fast --offline; git apply demo.diff; cargo test <demo> (must fail); revert; demo alone (must pass); then ./check %s on a copy of /repo with the patch'%prop},open(out+'/meta.json','w'),indent=1)
print(mid,'| tests:',tests,'| demo fails with:',rcw=='1','passes without:',rco=='0','| check rc',rc,'|',(open(out+'/check_output.txt').read().split('\n')+[''])[0][:140])
PY
