"""Workspace creation (per-run copy of /repo), dependency cache, Verus invocation and result parsing."""
import hashlib
import json
import os
import re
import shutil
import subprocess
import tempfile
import time

from . import overlay

VERIF = os.path.dirname(os.path.dirname(os.path.dirname(os.path.abspath(__file__))))
REPO = os.environ.get('YQV_REPO', '/repo')
CACHE = os.path.join(VERIF, '.cache')
TOOLCHAIN = '1.98.1-x86_64-unknown-linux-gnu'
DEPS = ['arguments', 'bitvec_simd', 'bnum', 'num_integer', 'num_traits', 'rand', 'rayon', 'wide']
SCRATCH_ROOT = os.environ.get('YQV_SCRATCH', '/var/tmp')


def stripped_cargo_toml(repo=REPO):
    t = open(os.path.join(repo, 'Cargo.toml')).read()
    t = re.sub(r'\[\[bench\]\]\n(?:[^\[\n][^\n]*\n)*\n*', '', t)
    t = re.sub(r'\[dev-dependencies\]\n(?:[^\[\n][^\n]*\n)*\n*', '', t)
    return t


import threading
_DEPS_LOCK = threading.Lock()


def deps_dir(repo=REPO, log=None):
    """Build (or reuse) the dependency rlibs with Verus' toolchain. Keyed by Cargo.lock + toolchain."""
    lock = open(os.path.join(repo, 'Cargo.lock')).read()
    h = hashlib.sha256((lock + stripped_cargo_toml(repo).split('[profile')[0] + TOOLCHAIN).encode()).hexdigest()[:16]
    d = os.path.join(CACHE, 'deps-' + h)
    stamp = os.path.join(d, 'ok')
    with _DEPS_LOCK:
        _build_deps(repo, d, stamp)
    dd = os.path.join(d, 'target', 'debug', 'deps')
    ext = []
    for c in DEPS:
        cands = sorted(f for f in os.listdir(dd) if re.match(r'lib%s-[0-9a-f]+\.rlib$' % c, f))
        if not cands:
            raise overlay.Undecided("dependency rlib missing: " + c)
        ext += ['--extern', '%s=%s' % (c, os.path.join(dd, cands[0]))]
    return dd, ext


def _build_deps(repo, d, stamp):
    """one build at a time per process (the two overlaid workspaces of a check are prepared concurrently); a concurrent
    build by another process uses its own temporary directory and the first finished one is kept"""
    if not os.path.exists(stamp):
        os.makedirs(CACHE, exist_ok=True)
        tmp = d + '.tmp%d' % os.getpid()
        shutil.rmtree(tmp, ignore_errors=True)
        os.makedirs(os.path.join(tmp, 'src'))
        with open(os.path.join(tmp, 'Cargo.toml'), 'w') as f:
            f.write(stripped_cargo_toml(repo))
        shutil.copy(os.path.join(repo, 'Cargo.lock'), tmp)
        with open(os.path.join(tmp, 'src', 'lib.rs'), 'w') as f:
            f.write('// deps only\n')
        env = dict(os.environ, CARGO_NET_OFFLINE='true', RUSTUP_TOOLCHAIN=TOOLCHAIN)
        p = subprocess.run(['cargo', 'build', '--offline', '--lib'], cwd=tmp, env=env, stdout=subprocess.PIPE,
                           stderr=subprocess.STDOUT, text=True)
        if p.returncode != 0:
            raise overlay.Undecided("dependency build failed:\n" + p.stdout[-2000:])
        open(os.path.join(tmp, 'ok'), 'w').write('ok')
        if os.path.exists(d):
            shutil.rmtree(tmp, ignore_errors=True)
        else:
            try:
                os.rename(tmp, d)
            except OSError:
                shutil.rmtree(tmp, ignore_errors=True)


class Workspace:
    def __init__(self, canary=False, units=None, repo=REPO, keep=False, path=None):
        self.repo = repo
        self.keep = keep
        self.path = path or tempfile.mkdtemp(prefix='yqv-', dir=SCRATCH_ROOT)
        self.src = os.path.join(self.path, 'src')
        if os.path.exists(self.src):
            shutil.rmtree(self.src)
        shutil.copytree(os.path.join(repo, 'src'), self.src)
        self.units = units if units is not None else overlay.load_units()
        self.report = overlay.apply_overlay(os.path.join(repo, 'src'), self.src, self.units, canary=canary)
        files = sorted(set(u.file for u in self.units))
        self.linemap = overlay.line_map(self.src, files)
        self.canary = canary

    def unit_at(self, file, line):
        for lo, hi, uid in self.linemap.get(file, []):
            if lo <= line <= hi:
                return uid
        return None

    def line_text(self, file, line):
        try:
            with open(os.path.join(self.path, file)) as f:
                for ln, l in enumerate(f, 1):
                    if ln == line:
                        return l.strip()
        except OSError:
            pass
        return ''

    def close(self):
        if not self.keep:
            shutil.rmtree(self.path, ignore_errors=True)


DIAG_RE = re.compile(r'^(error|warning|note)(?:\[[A-Z0-9]+\])?: (.*)$')
LOC_RE = re.compile(r'^\s*--> (.*?):(\d+):(\d+)')


def parse_diagnostics(stderr):
    out = []
    cur = None
    for l in stderr.split('\n'):
        m = DIAG_RE.match(l)
        if m:
            cur = {'level': m.group(1), 'message': m.group(2), 'file': None, 'line': None, 'body': []}
            out.append(cur)
            continue
        if cur is None:
            continue
        m = LOC_RE.match(l)
        if m and cur['file'] is None:
            cur['file'] = m.group(1)
            cur['line'] = int(m.group(2))
        cur['body'].append(l)
    return out


# Z3 search heuristics only (no effect on soundness): eager datatype case splits keep the control-flow heavy query of
# factor_impl (14 early returns over Option/tuple/enum matches) at ~1 s instead of > 180 s
SMT_OPTIONS = ['--smt-option', 'smt.dt_lazy_splits=2']


def run_verus(ws, modules=None, rlimit=None, threads=8, extra=None, timeout=3600):
    dd, ext = deps_dir(ws.repo)
    cmd = ['verus', 'src/lib.rs', '--crate-type=lib', '--crate-name', 'yamaquasi', '--edition', '2021',
           '-L', 'dependency=' + dd] + ext + ['--output-json', '--time-expanded', '--triggers-mode', 'silent', '--multiple-errors', '12', '--num-threads', str(threads), '-Zcrate-attr=feature(allocator_api)'] + SMT_OPTIONS
    if rlimit:
        cmd += ['--rlimit', str(rlimit)]
    for m in modules or []:
        cmd += ['--verify-module', m] if m else ['--verify-root']
    cmd += extra or []
    t0 = time.time()
    env = dict(os.environ)
    env.pop('RUSTUP_TOOLCHAIN', None)
    try:
        p = subprocess.run(cmd, cwd=ws.path, stdout=subprocess.PIPE, stderr=subprocess.PIPE, text=True, timeout=timeout, env=env)
    except subprocess.TimeoutExpired:
        raise overlay.Undecided("verus timed out after %d s" % timeout)
    wall = time.time() - t0
    js = None
    try:
        js = json.loads(p.stdout)
    except Exception:
        pass
    diags = parse_diagnostics(p.stderr)
    return {'rc': p.returncode, 'json': js, 'diags': diags, 'stderr': p.stderr, 'wall_s': wall, 'cmd': ' '.join(cmd)}


def function_results(res):
    """per Verus function name -> {'ok': bool, 'time_us': int} from the smt breakdown"""
    out = {}
    js = res['json'] or {}
    smt = js.get('times-ms', {}).get('smt', {})
    for mod in smt.get('smt-run-module-times', []):
        for fb in mod.get('function-breakdown', []):
            out[fb.get('function')] = fb
    return out
