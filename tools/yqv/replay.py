"""Failing-input search: run the executable contracts of replay/ against the current tree."""
import hashlib
import json
import os
import shutil
import subprocess

from . import verus

VERIF = verus.VERIF
_built = {}


def _src_hash(repo):
    h = hashlib.sha256()
    for root, _, files in sorted(os.walk(os.path.join(repo, 'src'))):
        for f in sorted(files):
            h.update(open(os.path.join(root, f), 'rb').read())
    for f in sorted(os.listdir(os.path.join(VERIF, 'replay', 'src'))):
        h.update(open(os.path.join(VERIF, 'replay', 'src', f), 'rb').read())
    inj = os.path.join(VERIF, 'replay', 'inject')
    if os.path.isdir(inj):
        for f in sorted(os.listdir(inj)):
            h.update(open(os.path.join(inj, f), 'rb').read())
    return h.hexdigest()[:12]


def crate_copy(repo, out):
    """Copy of the crate that the replay executable links against: <repo>/src, Cargo.lock and Cargo.toml (bench / dev sections
    dropped) are copied as they are; each replay/inject/<stem>.rs is appended to the copy of src/<stem>.rs as a child module
    (so that a probe can read private state, exactly as the Kani harnesses are appended). Nothing else differs."""
    crate = os.path.join(out, 'crate')
    shutil.rmtree(crate, ignore_errors=True)
    shutil.copytree(os.path.join(repo, 'src'), os.path.join(crate, 'src'))
    shutil.copy(os.path.join(repo, 'Cargo.lock'), crate)
    open(os.path.join(crate, 'Cargo.toml'), 'w').write(verus.stripped_cargo_toml(repo))
    inj = os.path.join(VERIF, 'replay', 'inject')
    if os.path.isdir(inj):
        for f in sorted(os.listdir(inj)):
            if f.endswith('.rs'):
                dst = os.path.join(crate, 'src', f.replace('__', '/'))
                if os.path.exists(dst):
                    with open(dst, 'a') as fo:
                        fo.write('\n// ---- verif probe (appended by tools/yqv/replay.py) ----\n' + open(os.path.join(inj, f)).read())
    return crate


def build(repo, profile='dev'):
    key = (repo, profile)
    if key in _built:
        return _built[key]
    # one build directory per process: checks of different properties may run concurrently on the same tree, and each
    # removes its directory when it is done
    out = os.path.join(verus.SCRATCH_ROOT, 'yqv-replay-%s-%d' % (_src_hash(repo), os.getpid()))
    os.makedirs(os.path.join(out, 'src'), exist_ok=True)
    toml = open(os.path.join(VERIF, 'replay', 'Cargo.toml.in')).read().replace('@REPO@', crate_copy(repo, out))
    open(os.path.join(out, 'Cargo.toml'), 'w').write(toml)
    for f in os.listdir(os.path.join(VERIF, 'replay', 'src')):
        shutil.copy(os.path.join(VERIF, 'replay', 'src', f), os.path.join(out, 'src'))
    env = dict(os.environ, CARGO_NET_OFFLINE='true')
    env.pop('RUSTUP_TOOLCHAIN', None)
    env.pop('CARGO_TARGET_DIR', None)   # the executable is looked up under <out>/target
    cmd = ['cargo', 'build', '--offline'] + (['--release'] if profile == 'release' else [])
    p = subprocess.run(cmd, cwd=out, env=env, stdout=subprocess.PIPE, stderr=subprocess.STDOUT, text=True)
    if p.returncode != 0:
        _built[key] = None
        return None
    exe = os.path.join(out, 'target', 'release' if profile == 'release' else 'debug', 'yq-replay')
    _built[key] = (exe, out)
    return _built[key]


def cases_for(unit):
    m = json.load(open(os.path.join(VERIF, 'replay', 'cases.json')))
    out = []
    for pref in sorted(m, key=len, reverse=True):
        if unit.startswith(pref):
            for c in m[pref]:
                if c not in out:
                    out.append(c)
    return out


def run_case(repo, case, seed, iters, profile='dev', timeout=120):
    b = build(repo, profile)
    if not b:
        return None
    exe, _ = b
    try:
        p = subprocess.run([exe, case, str(seed), str(iters)], stdout=subprocess.PIPE, stderr=subprocess.PIPE, text=True, timeout=timeout)
    except subprocess.TimeoutExpired:
        return {'case': case, 'failing_input': 'timeout after %d s (possible non-termination)' % timeout, 'profile': profile}
    if p.returncode == 1:
        for l in p.stdout.split('\n'):
            l = l.strip()
            if l.startswith('{'):
                try:
                    w = json.loads(l)
                    w['profile'] = profile
                    w['replay_cmd'] = 'tools/replay_build.sh <repo> <scratch> && <scratch>/target/debug/yq-replay %s %s %s' % (case, seed, iters)
                    return w
                except ValueError:
                    pass
        return {'case': case, 'failing_input': p.stdout[-500:], 'profile': profile}
    return None


def search(fail, tier, seed):
    """try to turn a failed obligation into a concrete failing input on the real code"""
    repo = verus.REPO
    iters = 3000 if tier == 'quick' else 200000
    for case in cases_for(fail.unit):
        for profile in ('dev', 'release'):
            w = run_case(repo, case, seed, iters, profile)
            if w:
                fail.witness = w
                return w
    return None


def cleanup():
    for v in _built.values():
        if v:
            shutil.rmtree(v[1], ignore_errors=True)
    _built.clear()
