"""C15 layer 3: polynomial-identity obligations of the straight-line curve formulas.

Reads the *real function bodies* from <repo>/src/ecm.rs (and ecm128.rs), executes them symbolically
(zn.add / zn.sub / zn.mul mean +, -, * in a commutative ring: that is what the C07 contracts say) and
discharges each obligation by ideal reduction over ZZ (sympy `reduced`, remainder 0 with integer
quotients, hence valid over every Z/n).  Run with the tooling venv: python3-vt algebra_worker.py <repo>
Prints one JSON object on stdout.
"""
import json
import os
import re
import sys
import time

import sympy as sp

sys.path.insert(0, os.path.dirname(os.path.dirname(os.path.abspath(__file__))))
from yqv import rustscan  # noqa


class Unsupported(Exception):
    pass


TOK = re.compile(r'\s*(//[^\n]*|[A-Za-z_Ͱ-Ͽ][A-Za-z_0-9Ͱ-Ͽ]*|\d+|&&|\|\||==|->|[{}()\[\],;.&=!<>+\-*/:|])')


def tokenize(s):
    out = []
    pos = 0
    while pos < len(s):
        m = TOK.match(s, pos)
        if not m:
            if s[pos:].strip() == '':
                break
            raise Unsupported("token at %r" % s[pos:pos + 30])
        t = m.group(1)
        pos = m.end()
        if t.startswith('//'):
            continue
        out.append(t)
    return out


ZN = ('zn',)
SELF = ('self',)


class Exec:
    """symbolic executor for the straight-line subset"""

    def __init__(self, toks, env, selfenv):
        self.t = toks
        self.i = 0
        self.env = dict(env)
        self.selfenv = selfenv

    def peek(self, k=0):
        return self.t[self.i + k] if self.i + k < len(self.t) else None

    def eat(self, x=None):
        if self.i >= len(self.t):
            raise Unsupported("unexpected end")
        t = self.t[self.i]
        if x is not None and t != x:
            raise Unsupported("expected %s got %s near %s" % (x, t, ' '.join(self.t[max(0, self.i - 6):self.i + 6])))
        self.i += 1
        return t

    def block(self):
        self.eat('{')
        saved = dict(self.env)
        val = None
        while self.peek() != '}':
            if self.peek() == 'let':
                self.eat('let')
                if self.peek() == '(':
                    self.eat('(')
                    names = []
                    while self.peek() != ')':
                        if self.peek() == 'mut':
                            self.eat()
                        names.append(self.eat())
                        if self.peek() == ',':
                            self.eat(',')
                    self.eat(')')
                    self.eat('=')
                    v = self.expr()
                    self.eat(';')
                    if not (isinstance(v, tuple) and len(v) == len(names)):
                        raise Unsupported("tuple pattern mismatch")
                    for n, x in zip(names, v):
                        self.env[n] = x
                else:
                    if self.peek() == 'mut':
                        self.eat()
                    name = self.eat()
                    # `let add = |x, y| M128::add(self.n, x, y);` : an alias of a ring operation
                    if self.peek() == '=' and self.peek(1) == '|':
                        j = self.i
                        while self.t[j] != ';':
                            j += 1
                        text = ' '.join(self.t[self.i + 1:j])
                        m = re.match(r'^\| x , y \| M128 : : (add|sub|mul) \( self \. n , (?:self \. ninv , )?x , y \)$', text)
                        if not m:
                            raise Unsupported("closure %s" % text)
                        self.env[name] = ('op', m.group(1))
                        self.i = j + 1
                        continue
                    if self.peek() == ':':
                        # type ascription: skip to '='
                        while self.peek() != '=':
                            self.eat()
                    self.eat('=')
                    v = self.expr()
                    self.eat(';')
                    self.env[name] = v
            elif self.peek() == 'return':
                raise Unsupported("return statement")
            else:
                val = self.expr()
                if self.peek() == ';':
                    self.eat(';')
                    val = None
        self.eat('}')
        self.env = saved
        return val

    def args(self):
        self.eat('(')
        items = []
        while self.peek() != ')':
            items.append(self.expr())
            if self.peek() == ',':
                self.eat(',')
        self.eat(')')
        return items

    def expr(self):
        v = self.unary()
        if self.peek() == '==':
            self.eat('==')
            w = self.unary()
            return ('eq', v, w)
        return v

    def unary(self):
        t = self.peek()
        if t == '&':
            self.eat()
            if self.peek() == 'mut':
                raise Unsupported("&mut")
            return self.unary()
        if t == '*':
            self.eat()
            return self.unary()
        if t == 'if':
            self.eat('if')
            cond = self.unary()
            if not isinstance(cond, bool):
                raise Unsupported("non-constant condition")
            # both branches are parsed (for syntax), the chosen value is returned
            a = self.block()
            self.eat('else')
            b = self.block()
            return a if cond else b
        if t == '{':
            return self.block()
        if t == '(':
            items = self.args()
            return tuple(items) if len(items) != 1 else items[0]
        name = self.eat()
        if name in ('Point', 'ExtPoint') and self.peek() == '(':
            return tuple(self.args())
        if name == 'M128' and self.peek() == '(':
            a = self.args()
            if len(a) != 1:
                raise Unsupported("M128(..)")
            return a[0]
        if name.isdigit():
            return sp.Integer(int(name))
        if name in self.env and isinstance(self.env[name], tuple) and self.env[name][:1] == ('op',) and self.peek() == '(':
            a = self.args()
            if len(a) != 2 or any(isinstance(x, (tuple, bool)) for x in a):
                raise Unsupported("operands of %s" % name)
            f = self.env[name][1]
            return sp.expand(a[0] * a[1]) if f == 'mul' else (a[0] + a[1] if f == 'add' else a[0] - a[1])
        if name == 'self':
            v = SELF
        elif name in self.env:
            v = self.env[name]
        else:
            raise Unsupported("unknown name %s" % name)
        while self.peek() == '.':
            self.eat('.')
            f = self.eat()
            if f.isdigit():
                if not isinstance(v, tuple):
                    raise Unsupported("projection on non-tuple")
                v = v[int(f)]
            elif v == SELF:
                if f == 'zn':
                    v = ZN
                elif self.peek() == '(' and '__call__' in self.selfenv:
                    a = self.args()
                    v = self.selfenv['__call__'](f, a)
                elif f in self.selfenv:
                    v = self.selfenv[f]
                else:
                    raise Unsupported('self.' + f)
            elif v == ZN:
                a = self.args()
                if any(isinstance(x, tuple) or isinstance(x, bool) for x in a):
                    raise Unsupported("non-scalar argument of zn.%s" % f)
                if f == 'mul' and len(a) == 2:
                    v = sp.expand(a[0] * a[1])
                elif f == 'add' and len(a) == 2:
                    v = a[0] + a[1]
                elif f == 'sub' and len(a) == 2:
                    v = a[0] - a[1]
                elif f == 'zero' and not a:
                    v = sp.Integer(0)
                elif f == 'one' and not a:
                    v = sp.Integer(1)
                else:
                    raise Unsupported("zn.%s/%d" % (f, len(a)))
            elif f == 'clone' and self.peek() == '(':
                self.args()
            elif f == 'to_proj' and self.peek() == '(':
                self.args()
                v = v[:3]
            else:
                raise Unsupported("method %s" % f)
        return v


def fn_body(src, name, container):
    s, e = rustscan.find_item(src, name, 'fn', container)
    text = src[s:e]
    # body = from the first '{' at paren depth 0 after 'fn'
    k = text.index('fn ' + name)
    depth = 0
    for i, c in rustscan.iter_code(text, k):
        if c in '([':
            depth += 1
        elif c in ')]':
            depth -= 1
        elif c == '{' and depth == 0:
            j = rustscan.match_brace(text, i)
            return text[i:j + 1]
    raise Unsupported("body of %s not found" % name)


def run_fn(src, name, container, env, selfenv):
    body = fn_body(src, name, container)
    ex = Exec(tokenize(body), env, selfenv)
    ex.env.setdefault('zn', ZN)
    return ex.block()


# ---------------------------------------------------------------- obligations

X1, Y1, Z1, T1, X2, Y2, Z2, T2, d, A, B, GX, GY = sp.symbols('X1 Y1 Z1 T1 X2 Y2 Z2 T2 d A B GX GY')
GENS = (X1, Y1, Z1, T1, X2, Y2, Z2, T2, d, A, B, GX, GY)
LEXGENS = (Z1, Z2, B, X1, Y1, T1, X2, Y2, T2, d, A, GX, GY)


def member(target, gens):
    target = sp.expand(target)
    if target == 0:
        return True
    if not gens:
        return False
    # lex order with Z1 > Z2 first: the leading terms of the curve equations are then Z1^4 and Z2^4 (coprime),
    # so the generators are a Groebner basis and division decides membership (Buchberger's first criterion)
    q, r = sp.reduced(target, gens, *LEXGENS, order='lex', domain=sp.ZZ)
    return r == 0


def edw(P, tw):
    x, y, z = P[:3]
    a = -1 if tw else 1
    return sp.expand((a * x**2 + y**2) * z**2 - (z**4 + d * x**2 * y**2))


def minors(P, Q):
    return [P[i] * Q[j] - P[j] * Q[i] for i, j in ((0, 1), (1, 2), (0, 2))]


def textbook_add(P, Q, tw):
    a = -1 if tw else 1
    x1, y1, z1 = P[:3]
    x2, y2, z2 = Q[:3]
    nx = (x1 * y2 + y1 * x2) * z1 * z2
    ny = (y1 * y2 - a * x1 * x2) * z1 * z2
    dx = z1**2 * z2**2 + d * x1 * x2 * y1 * y2
    dy = z1**2 * z2**2 - d * x1 * x2 * y1 * y2
    return (sp.expand(nx * dy), sp.expand(ny * dx), sp.expand(dx * dy))


def main(repo):
    t0 = time.time()
    results = []   # {unit, name, ok, detail}
    errors = []

    def ob(unit, name, fn):
        try:
            ok = bool(fn())
            results.append({'unit': unit, 'name': name, 'ok': ok})
        except Unsupported as ex:
            errors.append('%s: %s: %s' % (unit, name, ex))
        except rustscan.ScanError as ex:
            errors.append('%s: %s: %s' % (unit, name, ex))

    ecm = open(os.path.join(repo, 'src', 'ecm.rs')).read()
    C = 'impl Curve'
    for tw in (False, True):
        tag = 'a=-1' if tw else 'a=+1'
        se = {'d': d, 'twisted': tw}
        P = (X1, Y1, Z1)
        Q = (X2, Y2, Z2)
        gP, gQ = edw(P, tw), edw(Q, tw)
        memo = {}

        def R(name, env, cont=C, se=se, memo=memo):
            key = (name, tuple(sorted((k, str(v)) for k, v in env.items())))
            if key not in memo:
                memo[key] = run_fn(ecm, name, cont, env, se)
            return memo[key]

        U = 'ecm::Curve::'
        ob(U + 'add', 'add: closure on the curve [%s]' % tag, lambda: member(edw(R('add', {'p': P, 'q': Q}), tw), [gP, gQ]))
        ob(U + 'add', 'add agrees with the textbook Edwards law [%s]' % tag,
           lambda: all(member(m, [gP, gQ]) for m in minors(R('add', {'p': P, 'q': Q}), textbook_add(P, Q, tw))))
        ob(U + 'add', 'add(P, O) ~ P for O = (0:1:1) [%s]' % tag,
           lambda: all(member(m, [gP]) for m in minors(R('add', {'p': P, 'q': (sp.Integer(0), sp.Integer(1), sp.Integer(1))}), P)))
        ob(U + 'double', 'double: closure [%s]' % tag, lambda: member(edw(R('double', {'p': P}), tw), [gP]))
        ob(U + 'double', 'double ~ add(P,P) [%s]' % tag,
           lambda: all(member(m, [gP]) for m in minors(R('double', {'p': P}), R('add', {'p': P, 'q': P}))))
        ob(U + 'dblext', 'dblext lies on the quadric xy = zt [%s]' % tag,
           lambda: (lambda E: sp.expand(E[0] * E[1] - E[2] * E[3]) == 0)(R('dblext', {'p': P})))
        ob(U + 'dblext', 'dblext ~ double [%s]' % tag,
           lambda: all(member(m, [gP]) for m in minors(R('dblext', {'p': P}), R('double', {'p': P}))))
        ob(U + 'to_extended', 'to_extended: quadric and same projective point [%s]' % tag,
           lambda: (lambda E: sp.expand(E[0] * E[1] - E[2] * E[3]) == 0 and all(sp.expand(m) == 0 for m in minors(E, P)))(R('to_extended', {'p': P})))

        def addext_ok(proj):
            EP = R('to_extended', {'p': P})
            EQ = R('to_extended', {'p': Q})
            AE = R('_addext', {'p': EP, 'q': EQ, 'proj': proj})
            ok = all(member(m, [gP, gQ]) for m in minors(AE, R('add', {'p': P, 'q': Q})))
            if not proj:
                ok = ok and sp.expand(AE[0] * AE[1] - AE[2] * AE[3]) == 0
            return ok
        ob(U + '_addext', '_addext(ext P, ext Q) ~ add(P,Q), on the quadric [%s]' % tag, lambda: addext_ok(False))
        ob(U + '_addext', '_addext(.., proj=true) ~ add(P,Q) [%s]' % tag, lambda: addext_ok(True))

        def sub_ok():
            EP = R('to_extended', {'p': P})
            EQ = R('to_extended', {'p': Q})
            negQ = (-X2, Y2, Z2)
            body = fn_body(ecm, 'subextproj', C)
            # subextproj negates x and t of q, then calls addextproj: execute the negation part symbolically
            ex = Exec(tokenize(body.replace('self.addextproj(p, &q)', '(p, q)')), {'p': EP, 'q': EQ}, se)
            ex.env['zn'] = ZN
            pp, qq = ex.block()
            AE = R('_addext', {'p': pp, 'q': qq, 'proj': True})
            return all(member(m, [gP, gQ]) for m in minors(AE, R('add', {'p': P, 'q': negQ})))
        ob(U + 'subextproj', 'subextproj(ext P, ext Q) ~ add(P, -Q) [%s]' % tag, sub_ok)

        def valid_ok():
            v = R('is_valid', {'p': P})
            if not (isinstance(v, tuple) and v[0] == 'eq'):
                raise Unsupported("is_valid is not an equality")
            diff = sp.expand(v[1] - v[2])
            return diff == gP or diff == -gP
        ob(U + 'is_valid', 'is_valid tests exactly the curve equation [%s]' % tag, valid_ok)

    # Suyama-11 modular curve (short Weierstrass y^2 z = x^3 + A x z^2 + B z^3), generator G = (GX, GY) affine
    S = "impl<'a> Suyama11<'a>"
    try:
        rustscan.find_item(ecm, 'add_g', 'fn', S)
    except rustscan.ScanError:
        S = 'impl Suyama11<\'_>'
    # G = (GX, GY) lies on the curve: B is eliminated through GY^2 = GX^3 + A GX + B (keeps a single generator,
    # which is trivially a Groebner basis)
    Bsub = sp.expand(GY**2 - GX**3 - A * GX)
    se = {'a': A, 'b': Bsub, 'gx': GX, 'gy': GY}
    P = (X1, Y1, Z1)

    def wei(Pt):
        x, y, z = Pt
        return sp.expand(y**2 * z - (x**3 + A * x * z**2 + Bsub * z**3))
    gG = sp.Integer(0)
    US = 'ecm::Suyama11::'
    ob(US + 'is_valid', 'Suyama11::is_valid tests the Weierstrass equation', lambda: (lambda v: sp.expand(v[1] - v[2]) in (wei(P), -wei(P)))(run_fn(ecm, 'is_valid', S, {'pt': P}, se)))
    ob(US + 'double', 'Suyama11::double: closure', lambda: member(wei(run_fn(ecm, 'double', S, {'pt': P}, se)), [wei(P)]))
    ob(US + 'add_g', 'Suyama11::add_g: closure', lambda: member(wei(run_fn(ecm, 'add_g', S, {'pt': P}, se)), [wei(P)]))

    def addg_chord():
        # the result is collinear with P and G reflected: textbook chord addition, x3 = m^2 - x1 - gx with m = u/v
        R3 = run_fn(ecm, 'add_g', S, {'pt': P}, se)
        u = GY * Z1 - Y1
        v = GX * Z1 - X1
        # affine x3 = (u/v)^2 - X1/Z1 - GX  =>  X3/Z3 * v^2 Z1 == u^2 Z1 - X1 v^2 - GX v^2 Z1
        lhs = R3[0] * v**2 * Z1
        rhs = (u**2 * Z1 - X1 * v**2 - GX * v**2 * Z1) * R3[2]
        return member(lhs - rhs, [wei(P)])
    ob(US + 'add_g', 'Suyama11::add_g: x-coordinate of the chord law', addg_chord)

    def dbl_tangent():
        R3 = run_fn(ecm, 'double', S, {'pt': P}, se)
        # affine: m = (3x^2 + A)/(2y), x3 = m^2 - 2x  with x = X/Z, y = Y/Z
        w = A * Z1**2 + 3 * X1**2
        s = 2 * Y1 * Z1
        # x3 = w^2/s^2 - 2 X1/Z1  => X3/Z3 * s^2 * Z1 == w^2 Z1 - 2 X1 s^2
        lhs = R3[0] * s**2 * Z1
        rhs = (w**2 * Z1 - 2 * X1 * s**2) * R3[2]
        return member(lhs - rhs, [wei(P)])
    ob(US + 'double', 'Suyama11::double: x-coordinate of the tangent law', dbl_tangent)

    # ---- ecm128::Curve (a = -1 only): same formulas on 128-bit residues, must agree with the 512-bit implementation
    e128 = open(os.path.join(repo, 'src', 'ecm128.rs')).read()
    C128 = 'impl Curve'
    tw = True
    P = (X1, Y1, Z1)
    Q = (X2, Y2, Z2)
    gP, gQ = edw(P, tw), edw(Q, tw)
    se512 = {'d': d, 'twisted': True}

    def call128(f, a):
        params = {'dblext': ['p'], 'ext': ['p'], 'add': ['p', 'q'], 'double': ['p'], 'dbladd': ['p', 'q']}
        if f not in params or len(a) != len(params[f]):
            raise Unsupported("self.%s" % f)
        return run_fn(e128, f, C128, dict(zip(params[f], a)), se128)
    GXs, GYs, GZs = sp.symbols('GXs GYs GZs')
    se128 = {'__call__': call128, 'g': (X2, Y2, Z2)}
    U8 = 'ecm128::Curve::'
    ob(U8 + 'ext', 'ecm128 ext == ecm to_extended', lambda: tuple(sp.expand(x) for x in call128('ext', [P])) == tuple(sp.expand(x) for x in run_fn(ecm, 'to_extended', C, {'p': P}, se512)))
    ob(U8 + 'dblext', 'ecm128 dblext == ecm dblext (a=-1)', lambda: tuple(sp.expand(x) for x in call128('dblext', [P])) == tuple(sp.expand(x) for x in run_fn(ecm, 'dblext', C, {'p': P}, se512)))
    ob(U8 + 'double', 'ecm128 double ~ ecm double (a=-1), closure',
       lambda: all(sp.expand(m) == 0 for m in minors(call128('double', [P]), run_fn(ecm, 'double', C, {'p': P}, se512))) and member(edw(call128('double', [P]), tw), [gP]))

    def add128():
        EP = call128('ext', [P])
        EQ = call128('ext', [Q])
        a8 = call128('add', [EP, EQ])
        a5 = run_fn(ecm, '_addext', C, {'p': EP, 'q': EQ, 'proj': False}, se512)
        same = tuple(sp.expand(x) for x in a8) == tuple(sp.expand(x) for x in a5)
        law = all(member(m, [gP, gQ]) for m in minors(a8, textbook_add(P, Q, tw)))
        return same and law and sp.expand(a8[0] * a8[1] - a8[2] * a8[3]) == 0
    ob(U8 + 'add', 'ecm128 add == ecm _addext (a=-1), agrees with the textbook law, on the quadric', add128)

    def dbladd128():
        EQ = call128('ext', [Q])
        r = call128('dbladd', [P, EQ])
        D2 = run_fn(ecm, 'double', C, {'p': P}, se512)
        # 2P + Q by the textbook law, modulo the curve equations of P, Q (2P is on the curve by closure)
        tb = textbook_add(D2, Q, tw)
        return all(member(m, [gP, gQ]) for m in minors(r, tb))
    ob(U8 + 'dbladd', 'ecm128 dbladd(P, ext Q) ~ 2P + Q', dbladd128)

    def valid128():
        EP = (X1, Y1, Z1, T1)
        v = run_fn(e128, 'is_valid', C128, {'p': EP}, se128)
        if not (isinstance(v, tuple) and v[0] == 'eq'):
            raise Unsupported("is_valid is not an equality")
        g = call128('ext', [(X2, Y2, Z2)])
        zg = g[1]**2 - g[0]**2 - g[2]**2
        zp = Y1**2 - X1**2 - Z1**2
        want = sp.expand(zg * T1**2 - zp * g[3]**2)
        diff = sp.expand(v[1] - v[2])
        return diff == want or diff == -want
    ob(U8 + 'is_valid', 'ecm128 is_valid compares (y^2-x^2-z^2)/t^2 with the generator', valid128)

    out = {'results': results, 'unsupported': errors, 'wall_s': round(time.time() - t0, 2)}
    print(json.dumps(out))


if __name__ == '__main__':
    main(sys.argv[1])
