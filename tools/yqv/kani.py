"""Engine: Kani harnesses appended (as child modules) to a per-run copy of the crate.

kani/<stem>.rs is appended to src/<stem>.rs as `#[cfg(kani)] mod verif_kani { ... }`. Each harness is declared
with a comment `// @harness <name> unit=<unit id> props=<ids>` right before its attributes; <name> is informative,
the Rust function name that follows is what is run.
"""
import os
import re
import shutil
import subprocess
import tempfile
import time

from . import rustscan, verus
from .overlay import Undecided

KANI_DIR = os.path.join(verus.VERIF, 'kani')


def harnesses():
    out = []
    for f in sorted(os.listdir(KANI_DIR)):
        if not f.endswith('.rs'):
            continue
        txt = open(os.path.join(KANI_DIR, f)).read()
        for m in re.finditer(r'// @harness (\S+) unit=(\S+) props=(\S+)( tier=\w+)?\n((?:\s*#\[[^\n]*\]\n)*)\s*fn (\w+)\(', txt):
            out.append({'file': f, 'name': m.group(1), 'unit': m.group(2), 'props': m.group(3).split(','), 'fn': m.group(6),
                        'bounded': 'kani::unwind' in m.group(5), 'attrs': m.group(5),
                        'tier': (m.group(4) or ' tier=quick').strip().split('=')[1]})
    return out


def extract_convolve_dispatch(repo):
    src = open(os.path.join(repo, 'src', 'arith_fft.rs')).read()
    m = re.search(r'let \(fsize, logpack, stride\) = match \(zn\.n\.bits\(\), size\) \{', src)
    if not m:
        raise Undecided("convolve_modn dispatch table not found (extraction anchor lost)")
    ob = m.end() - 1
    cb = rustscan.match_brace(src, ob)
    body = src[ob:cb + 1]
    # drop the formatted panic message (formatting machinery is irrelevant and expensive for CBMC)
    body2, n = re.subn(r'\(nbits, _\) => panic!\([^)]*\),', '_ => panic!(),', body)
    if n != 1:
        raise Undecided("convolve_modn dispatch: catch-all arm has an unexpected shape")
    return 'match (bits, size) ' + body2


def prepare(repo):
    w = tempfile.mkdtemp(prefix='yqv-kani-', dir=verus.SCRATCH_ROOT)
    shutil.copytree(os.path.join(repo, 'src'), os.path.join(w, 'src'))
    shutil.copy(os.path.join(repo, 'Cargo.lock'), w)
    open(os.path.join(w, 'Cargo.toml'), 'w').write(verus.stripped_cargo_toml(repo))
    for f in sorted(os.listdir(KANI_DIR)):
        if not f.endswith('.rs'):
            continue
        stem = f[:-3]
        dst = os.path.join(w, 'src', stem.replace('__', '/') + '.rs')
        if not os.path.exists(dst):
            raise Undecided("kani: source file for %s not found" % f)
        txt = open(os.path.join(KANI_DIR, f)).read()
        if '/*@EXTRACT convolve_dispatch*/' in txt:
            txt = txt.replace('/*@EXTRACT convolve_dispatch*/', extract_convolve_dispatch(repo))
        with open(dst, 'a') as fo:
            fo.write('\n#[cfg(kani)]\n#[allow(dead_code, unused_imports, static_mut_refs)]\nmod verif_kani {\n' + txt + '\n}\n')
    return w


def shared_target():
    d = os.path.join(verus.CACHE, 'kani-target')
    os.makedirs(d, exist_ok=True)
    return d


def run(prop, eng, tier, seed):
    from .runner import Failure
    hs = [h for h in harnesses() if prop in h['props'] and (h['tier'] == 'quick' or tier == 'thorough')]
    if not hs:
        raise Undecided("no kani harness registered for " + prop)
    repo = verus.REPO
    w = prepare(repo)
    t0 = time.time()
    try:
        cmd = ['cargo', 'kani', '-Z', 'function-contracts', '-Z', 'stubbing', '--output-format=terse', '-j', '8']
        for h in hs:
            cmd += ['--harness', 'verif_kani::' + h['fn']]
        env = dict(os.environ, CARGO_NET_OFFLINE='true', CARGO_TARGET_DIR=shared_target())
        env.pop('RUSTUP_TOOLCHAIN', None)
        # own process group, so that a timeout leaves no cbmc behind
        import signal
        pr = subprocess.Popen(cmd, cwd=w, env=env, stdout=subprocess.PIPE, stderr=subprocess.STDOUT, text=True, start_new_session=True)
        try:
            out, _ = pr.communicate(timeout=3000 if tier == 'quick' else 14400)
        except subprocess.TimeoutExpired:
            try:
                os.killpg(pr.pid, signal.SIGKILL)
            except OSError:
                pass
            pr.wait()
            raise Undecided("kani timed out")
        # parse per harness
        res = {}
        cur = {}          # thread -> harness being checked
        curthread = ''
        for line in out.split('\n'):
            th = re.match(r'^(Thread \d+): ?(.*)$', line)
            if th:
                curthread, rest = th.group(1), th.group(2)
            else:
                rest = line
            m = re.match(r'^Checking harness (\S+?)\.\.\.', rest)
            if m:
                cur[curthread] = m.group(1)
                res[m.group(1)] = {'status': None, 'failed': []}
                continue
            name = cur.get(curthread)
            if name is None:
                continue
            if 'VERIFICATION:- SUCCESSFUL' in rest:
                res[name]['status'] = 'ok'
            elif 'VERIFICATION:- FAILED' in rest:
                res[name]['status'] = 'failed'
            elif rest.startswith('Failed Checks:'):
                res[name]['failed'].append(rest[len('Failed Checks:'):].strip())
        # cross-check with the summary lines
        for m in re.finditer(r'Verification failed for - (\S+)', out):
            if m.group(1) in res and res[m.group(1)]['status'] != 'failed':
                raise Undecided("kani: output attribution mismatch for " + m.group(1))
        fails = []
        done = 0
        samples = []
        bounded = []
        for h in hs:
            full = [k for k in res if k.endswith('verif_kani::' + h['fn'])]
            if not full or res[full[0]]['status'] is None:
                raise Undecided("kani: no verdict for harness %s (compile error or crash?)\n%s" % (h['fn'], out[-1500:]))
            r = res[full[0]]
            samples.append('%s: kani harness %s (%s)' % (h['unit'], h['fn'], 'full symbolic domain' if not h['bounded'] else 'loops unwound with unwinding assertions'))
            if r['status'] == 'ok':
                done += 1
            else:
                # an unwinding-assertion failure is a tool limit, not a violation
                if r['failed'] and all('unwinding assertion' in x for x in r['failed']):
                    raise Undecided("kani: unwinding bound too small for %s" % h['fn'])
                fails.append(Failure(prop, h['unit'], 'kani', '; '.join(r['failed'])[:200] or h['fn'],
                                     'kani harness %s failed' % h['fn'], 'Kani (CBMC) reports failed checks for harness %s:\n%s' % (h['fn'], '\n'.join(r['failed'])), engine='kani'))
        return {'failures': fails, 'obligations': len(hs), 'discharged': done, 'backend': 'kani 0.68 / cbmc', 'cmds': [' '.join(cmd)],
                'samples': samples, 'summary': '%d/%d kani harnesses' % (done, len(hs)), 'wall_s': round(time.time() - t0, 1),
                'units': sorted(set(h['unit'] for h in hs)), 'bounded': bounded,
                'extraction': 'arith_fft::convolve_modn dispatch `match` extracted textually; scrutinee replaced by (bits, size); formatted panic message dropped'}
    finally:
        shutil.rmtree(w, ignore_errors=True)
