"""Engine wrapper: polynomial-identity obligations of the curve formulas (sympy back end, tooling venv)."""
import json
import os
import subprocess

from . import verus
from .overlay import Undecided


def run(prop, eng, tier, seed):
    from .runner import Failure
    worker = os.path.join(os.path.dirname(os.path.abspath(__file__)), 'algebra_worker.py')
    cmd = ['python3-vt', worker, verus.REPO]
    try:
        p = subprocess.run(cmd, stdout=subprocess.PIPE, stderr=subprocess.PIPE, text=True, timeout=600)
    except subprocess.TimeoutExpired:
        raise Undecided("algebra back end timed out")
    if p.returncode != 0:
        raise Undecided("algebra back end failed: " + p.stderr[-800:])
    out = json.loads(p.stdout)
    if out['unsupported']:
        raise Undecided("formula body outside the straight-line subset: " + '; '.join(out['unsupported'][:3]))
    fails = []
    for r in out['results']:
        if not r['ok']:
            fails.append(Failure(prop, r['unit'], 'algebra', r['name'], 'polynomial identity does not reduce to 0',
                                 'ideal reduction over ZZ left a non-zero remainder for: %s' % r['name'], engine='sympy'))
    n = len(out['results'])
    return {'failures': fails, 'obligations': n, 'discharged': n - len(fails), 'backend': 'sympy ideal reduction over ZZ',
            'cmds': [' '.join(cmd)], 'samples': ['%s: %s' % (r['unit'], r['name']) for r in out['results'][:8]],
            'summary': '%d/%d polynomial identities' % (n - len(fails), n), 'wall_s': out['wall_s'],
            'units': sorted(set(r['unit'] for r in out['results']))}
