"""Overlay: put the contract annotations of /verif/contracts onto the *current* text of /repo.

A unit record (contracts/<stem>/<unit>.rs) holds the pinned text of one item (fn / struct / const)
and its annotated text.  `apply` re-locates the item in the current source; if its text is still the
pinned text the annotated text is used as is, otherwise the annotations are transplanted onto the
current text (ghost insertions float with their neighbouring lines, line-local normalisations are
re-applied, rigid rewrites must still match, else Undecided).
"""
import difflib
import hashlib
import json
import os
import re

from . import rustscan

CONTRACTS = os.path.join(os.path.dirname(os.path.dirname(os.path.dirname(os.path.abspath(__file__)))), 'contracts')
SPECS = os.path.join(os.path.dirname(CONTRACTS), 'specs')


class Undecided(Exception):
    """tool limit: never reported as a violation (unless a concrete failing input is then found by replay)"""

    def __init__(self, msg, unit=None):
        Exception.__init__(self, msg)
        self.unit = unit


# --------------------------------------------------------------------------- unit records

class Unit:
    def __init__(self, path):
        self.path = path
        txt = open(path).read()
        m = re.match(r'//! unit: (\{.*\})\n//! ---- pinned ----\n(.*?)//! ---- annotated ----\n(.*)\Z', txt, re.S)
        if not m:
            raise ValueError("bad unit file " + path)
        self.meta = json.loads(m.group(1))
        self.pinned = m.group(2)
        self.ann = m.group(3)
        self.file = self.meta['file']
        self.container = self.meta.get('container')
        self.name = self.meta['name']
        self.kind = self.meta.get('kind', 'fn')
        self.nth = self.meta.get('nth', 0)
        self.props = self.meta.get('props', [])
        self.canary = self.meta.get('canary', self.kind == 'fn')
        self.id = unit_id(self.file, self.container, self.name, self.nth)

    @staticmethod
    def write(path, meta, pinned, ann):
        os.makedirs(os.path.dirname(path), exist_ok=True)
        with open(path, 'w') as f:
            f.write('//! unit: ' + json.dumps(meta, sort_keys=True) + '\n')
            f.write('//! ---- pinned ----\n')
            f.write(pinned if pinned.endswith('\n') else pinned + '\n')
            f.write('//! ---- annotated ----\n')
            f.write(ann if ann.endswith('\n') else ann + '\n')


def stem_of(file):
    s = file
    if s.startswith('src/'):
        s = s[4:]
    if s.endswith('.rs'):
        s = s[:-3]
    return s.replace('/', '__')


def module_of(file):
    s = file[4:-3] if file.startswith('src/') else file[:-3]
    if s == 'lib':
        return ''
    if s.endswith('/mod'):
        s = s[:-4]
    return s.replace('/', '::')


def container_short(container):
    if not container:
        return None
    c = re.sub(r'^impl\s*(<[^>]*>)?\s*', '', container)
    c = re.sub(r'<.*$', '', c)
    if ' for ' in container:
        tr = re.sub(r'^impl\s*(<[^>]*>)?\s*', '', container).split(' for ')
        c = re.sub(r'<.*$', '', tr[1].strip()) + '_as_' + re.sub(r'[^A-Za-z0-9]', '', tr[0])
    return c.strip()


def unit_id(file, container, name, nth=0):
    parts = [module_of(file)] if module_of(file) else []
    if container:
        parts.append(container_short(container))
    parts.append(name)
    s = '::'.join(parts)
    if nth:
        s += '#%d' % nth
    return s


def unit_path(file, container, name, nth=0):
    fn = name if not container else container_short(container) + '.' + name
    if nth:
        fn += '.%d' % nth
    return os.path.join(CONTRACTS, stem_of(file), fn + '.rs')


def load_units():
    units = []
    for root, _, files in os.walk(CONTRACTS):
        for f in sorted(files):
            if f.endswith('.rs') and f != '_appendix.rs':
                units.append(Unit(os.path.join(root, f)))
    units.sort(key=lambda u: u.id)
    return units


# --------------------------------------------------------------------------- unit-level pre-normalisations

_LOG_IF = re.compile(r'(\} else )?if prefs\.verbose\(Verbosity::\w+\) \{')


def drop_logging(txt):
    """Pre-normalisation `drop_logging` (applied to the pinned AND the current text of a unit before alignment):
    statements `if prefs.verbose(..) { eprintln!(..); }` (also as an `else if` tail) whose block holds nothing but one
    `eprintln!`, and `let start_x = std::time::Instant::now();` timers that only feed such messages, are removed.
    Logging has no effect on any contract; `eprintln!` formatting is outside the Verus subset. A block that contains
    anything else is left in place (and then fails to verify as unsupported, i.e. undecided)."""
    out = []
    i = 0
    while True:
        m = _LOG_IF.search(txt, i)
        if not m:
            out.append(txt[i:])
            break
        ob = m.end() - 1
        try:
            cb = rustscan.match_brace(txt, ob)
        except rustscan.ScanError:
            out.append(txt[i:])
            break
        body = txt[ob + 1:cb].strip()
        if body.startswith('eprintln!(') and body.endswith(');') and body.count('eprintln!(') == 1:
            # the macro call must extend to the end of the block
            op = body.index('(')
            depth = 0
            end = None
            for k, c in rustscan.iter_code(body, op):
                if c == '(':
                    depth += 1
                elif c == ')':
                    depth -= 1
                    if depth == 0:
                        end = k
                        break
            only_log = end is not None and body[end + 1:].strip() == ';'
        else:
            only_log = False
        if not only_log:
            out.append(txt[i:m.end()])
            i = m.end()
            continue
        if m.group(1):
            # `} else if verbose {..}` -> `}`; a following `else` cannot exist for these tails in practice
            rest = txt[cb + 1:].lstrip()
            if rest.startswith('else'):
                out.append(txt[i:m.end()])
                i = m.end()
                continue
            out.append(txt[i:m.start()] + '}')
            i = cb + 1
        else:
            ls = txt.rfind('\n', 0, m.start()) + 1
            rest = txt[cb + 1:].lstrip(' \t')
            if txt[ls:m.start()].strip() != '' or rest.startswith('else'):
                out.append(txt[i:m.end()])
                i = m.end()
                continue
            out.append(txt[i:ls])
            i = cb + 1
            if txt[i:i + 1] == '\n':
                i += 1
    res = ''.join(out)
    res = re.sub(r'^[ \t]*let start_\w+ = std::time::Instant::now\(\);\n', '', res, flags=re.M)
    return res


_ZIP_RE = re.compile(r'^([ \t]*)for \(&(\w+), (\w+)\) in ([\w\.]+)\.iter\(\)\.zip\(([\w\.]+)\.iter_mut\(\)\) \{[ \t]*$', re.M)
_ENUM_RE = re.compile(r'^([ \t]*)for \((\w+), (\w+)\) in ([\w\.]+)\.iter\(\)\.enumerate\(\) \{[ \t]*$', re.M)
_ENUMREF_RE = re.compile(r'^([ \t]*)for \((\w+), &(\w+)\) in (.+?)\.iter\(\)\.enumerate\(\) \{[ \t]*$', re.M)
_CHUNKS_RE = re.compile(r'^([ \t]*)for (\w+) in (.+?)\.chunks\((\w+)\) \{[ \t]*$', re.M)
_FILL_RE = re.compile(r'^([ \t]*)([\w\.]+)\.fill\(([^()]+)\);[ \t]*$', re.M)


def index_loops(txt):
    """Pre-normalisation `index_loops` (applied to the pinned AND the current text of a unit before alignment): iterator
    forms for which the installed vstd has no specification become index loops over the same elements in the same order:
      for (&P, O) in A.iter().zip(B.iter_mut()) { BODY }
          ->  for verif_z in 0..ol_min_usize(A.len(), B.len()) { let P = A[verif_z]; BODY with `*O` := `B[verif_z]` }
      for (I, X) in A.iter().enumerate() { BODY }
          ->  for I in 0..A.len() { let X = &A[I]; BODY }
      for (I, &P) in S.iter().enumerate() { BODY }   (S any slice expression, evaluated once)
          ->  let verif_e_P = &S; for I in 0..verif_e_P.len() { let P = verif_e_P[I]; BODY }
      for B in S.chunks(K) { BODY }
          ->  let verif_ch_B = &S; for verif_c_B in 0..ol_chunk_count(verif_ch_B.len(), K) { let B = ol_chunk(verif_ch_B, verif_c_B, K); BODY }
              (ol_chunk_count / ol_chunk: verified helpers; that they describe `chunks` is the documented behaviour, T-std)
      A.fill(V);  ->  ol_fill(&mut A, V);      (outlined, assumed contract: every element equals V afterwards)
    A body that uses O otherwise than as `*O` keeps that use and then fails to compile (undecided, never an alarm)."""
    while True:
        m = _ZIP_RE.search(txt)
        if not m:
            break
        ind, pv, ov, a, b = m.groups()
        ob = m.end() - 1 - (len(m.group(0)) - len(m.group(0).rstrip()))
        ob = txt.index('{', m.start(), m.end() + 1) if False else txt.rindex('{', m.start(), m.end())
        try:
            cb = rustscan.match_brace(txt, ob)
        except rustscan.ScanError:
            break
        body = txt[ob + 1:cb]
        body = re.sub(r'\*%s\b' % re.escape(ov), '%s[verif_z]' % b, body)
        head = '%sfor verif_z in 0..ol_min_usize(%s.len(), %s.len()) {\n%s    let %s = %s[verif_z];' % (ind, a, b, ind, pv, a)
        txt = txt[:m.start()] + head + body + txt[cb:]
    while True:
        m = _ENUM_RE.search(txt)
        if not m:
            break
        ind, iv, xv, a = m.groups()
        head = '%sfor %s in 0..%s.len() {\n%s    let %s = &%s[%s];' % (ind, iv, a, ind, xv, a, iv)
        txt = txt[:m.start()] + head + txt[m.end():]
    # for (I, &P) in SLICE_EXPR.iter().enumerate() {  ->  the slice expression is evaluated once (its own bounds obligations
    # stay), then an index loop:  let verif_e_P = &SLICE_EXPR; for I in 0..verif_e_P.len() { let P = verif_e_P[I];
    txt = _ENUMREF_RE.sub(lambda m: '%slet verif_e_%s = &%s; for %s in 0..verif_e_%s.len() {\n%s    let %s = verif_e_%s[%s];' % (
        m.group(1), m.group(3), m.group(4), m.group(2), m.group(3), m.group(1), m.group(3), m.group(3), m.group(2)), txt)
    # for B in SLICE_EXPR.chunks(K) {  ->  let verif_ch_B = &SLICE_EXPR; for verif_c_B in 0..ol_chunk_count(verif_ch_B.len(), K) {
    #                                          let B = ol_chunk(verif_ch_B, verif_c_B, K);
    txt = _CHUNKS_RE.sub(lambda m: '%slet verif_ch_%s = &%s; for verif_c_%s in 0..ol_chunk_count(verif_ch_%s.len(), %s) {\n%s    let %s = ol_chunk(verif_ch_%s, verif_c_%s, %s);' % (
        m.group(1), m.group(2), m.group(3), m.group(2), m.group(2), m.group(4), m.group(1), m.group(2), m.group(2), m.group(2), m.group(4)), txt)
    txt = _FILL_RE.sub(r'\1ol_fill(&mut \2, \3);', txt)
    return txt


PRE = {'drop_logging': drop_logging, 'index_loops': index_loops}
PRE_DOC = {'drop_logging': ('logging statements', '(dropped)'),
           'index_loops': ('for .. in A.iter().zip(B.iter_mut()) / S.iter().enumerate() / S.chunks(k) / A.fill(v)', 'index loops over the same elements / ol_fill(&mut A, v)')}


def apply_pre(txt, names):
    for n in names or []:
        txt = PRE[n](txt)
    return txt


# --------------------------------------------------------------------------- line transformers

def _sub_get_unchecked(line):
    """R1: X.get_unchecked(E) / get_unchecked_mut(E) -> indexing."""
    out = line
    while True:
        m = re.search(r'(\*?)([A-Za-z_][A-Za-z0-9_\.]*)(?:\[\.\.\])?\.get_unchecked(_mut)?\(', out)
        if not m:
            return out
        i = m.end()
        depth = 1
        while i < len(out) and depth:
            if out[i] == '(':
                depth += 1
            elif out[i] == ')':
                depth -= 1
            i += 1
        if depth:
            return out
        inner = out[m.end():i - 1]
        if m.group(1):
            rep = '%s[%s]' % (m.group(2), inner)
        else:
            rep = '&%s%s[%s]' % ('mut ' if m.group(3) else '', m.group(2), inner)
        out = out[:m.start()] + rep + out[i:]
        # a chained call `A.get_unchecked_mut(j).get_unchecked_mut(i)`: the reference just produced is indexed again
        mc = re.match(r'^(.*)(&mut |&)([A-Za-z_][A-Za-z0-9_\.]*(?:\[[^\[\]]*\])+)\.get_unchecked(_mut)?\(', out)
        while mc:
            j = mc.end()
            depth = 1
            while j < len(out) and depth:
                if out[j] == '(':
                    depth += 1
                elif out[j] == ')':
                    depth -= 1
                j += 1
            if depth:
                break
            out = mc.group(1) + mc.group(2) + mc.group(3) + '[' + out[mc.end():j - 1] + ']' + out[j:]
            mc = re.match(r'^(.*)(&mut |&)([A-Za-z_][A-Za-z0-9_\.]*(?:\[[^\[\]]*\])+)\.get_unchecked(_mut)?\(', out)


def _t_r1(line, arg=None):
    return _sub_get_unchecked(line)


def _t_unsafe(line, arg=None):
    return re.sub(r'\bunsafe\s*\{', '{', line)


def _t_brace(line, arg=None):
    s = line.rstrip()
    if s.endswith('{'):
        s = s[:-1].rstrip()
        return s
    return line


def _t_ret(line, arg=None):
    # `-> T {` / `-> T` at end of a header line becomes `-> (r: T)`
    m = re.match(r'^(.*->\s*)(.+?)(\s*\{?\s*)$', line)
    if not m or arg is None:
        return line
    ty = m.group(2)
    return '%s(%s: %s)%s' % (m.group(1), arg, ty, m.group(3))


_PL = r'\*?[\w\.\[\]]+'


def _t_r8(line, arg=None):
    """R8: destructuring assignment `(a, b, ..) = e;` (2 to 6 places; the `;` may be missing when the assignment ends a block)
    -> `let verif_t = e; a = verif_t.0; b = verif_t.1; ..` (a, b, ..: variables or simple places such as `self.0[i]`)"""
    m = re.match(r'^(\s*)\((%s(?:, %s){1,5})\) = (.*?);?\s*$' % (_PL, _PL), line)
    if not m:
        return line
    places = m.group(2).split(', ')
    return '%slet verif_t = %s; %s' % (m.group(1), m.group(3), ' '.join('%s = verif_t.%d;' % (pl, i) for i, pl in enumerate(places)))


def _t_forname(line, arg=None):
    """`for _ in E {` -> `for verif_it in E {` (the proof needs to name the iteration count)"""
    return re.sub(r'^(\s*)for _ in ', r'\1for verif_it in ', line)


R10_RE = re.compile(r'^(\s*)for (\w+) in ([^.{]+?)\.\.([^.={][^{]*?) \{\s*$')
R10_OUT = re.compile(r'^let mut verif_it_(\w+) = (.+?); let verif_end_\w+ = (.+?); while verif_it_\w+ < verif_end_\w+$')


def _t_r10(line, arg=None):
    """R10: `for x in A..B {` whose body contains `continue` -> explicit counter loop; the header clauses follow,
    then `{` and the prologue `let x = verif_it_x; verif_it_x += 1;` (increment first, so `continue` keeps its meaning)"""
    m = R10_RE.match(line)
    if not m:
        return line
    ind, x, a, b = m.groups()
    return '%slet mut verif_it_%s = %s; let verif_end_%s = %s; while verif_it_%s < verif_end_%s' % (ind, x, a, x, b, x, x)


def _t_forit(line, arg=None):
    """`for x in E {` -> `for x in verif_it: E {` (names the ghost iterator so that invariants can use verif_it.index)"""
    return re.sub(r'^(\s*)for (\w+) in (?!verif_it: )', r'\1for \2 in verif_it: ', line)


def _t_opassign(line, arg=None):
    """`x /= y;` -> `x = x / y;` (compound assignment on bnum integers: `DivAssign` is defined as `Div`)"""
    return re.sub(r'^(\s*)(\w+) /= (.+);\s*$', r'\1\2 = \2 / \3;', line)


def _t_mulassign(line, arg=None):
    """`x *= y;` -> `x = x * y;` (compound assignment on bnum integers: `MulAssign` is defined as `Mul`)"""
    return re.sub(r'^(\s*)(\w+) \*= (.+);\s*$', r'\1\2 = \2 * \3;', line)


def _t_one_const(line, arg=None):
    """`U1024::ONE` / `Uint::ONE` (not shifted) -> `ol_u1024_one()` / `ol_uint_one()` (associated constants of foreign
    types are unsupported)"""
    line = re.sub(r'\bU1024::ONE\b(?! <<)', 'ol_u1024_one()', line)
    return re.sub(r'\bUint::ONE\b(?! <<)', 'ol_uint_one()', line)


def _t_one_shl(line, arg=None):
    """`Uint::ONE << (E)` -> `ol_uint_one_shl(E)` (outlined: associated constants of foreign types are unsupported)"""
    return re.sub(r'Uint::ONE << \(([^()]*)\)', r'ol_uint_one_shl(\1)', line)


def _t_sort(line, arg=None):
    """`v.sort();` -> `ol_sort(&mut v);` (outlined slice sort with its assumed contract)"""
    return re.sub(r'^(\s*)(\w+)\.sort\(\);\s*$', r'\1ol_sort(&mut \2);', line)


R7_RE = re.compile(r'^(\s*)for (\w+) in \[(.*)\] \{\s*$')
R7_OUT = re.compile(r'^let verif_(\w+) = \[(.*)\]; for verif_i_\w+ in 0\.\.verif_\w+\.len\(\)$')


def _t_r7(line, arg=None):
    """R7: `for X in [a, b, c] {` -> indexed loop over the same array literal (header clauses follow, then
    `{` and the binding `let X = verif_X[verif_i_X];`)"""
    m = R7_RE.match(line)
    if not m:
        return line
    ind, x, lst = m.group(1), m.group(2), m.group(3)
    return '%slet verif_%s = [%s]; for verif_i_%s in 0..verif_%s.len()' % (ind, x, lst, x, x)


RVEC_RE = re.compile(r'^(\s*)for (\w+) in (\w+) \{\s*$')
RVEC_OUT = re.compile(r'^for verif_i_(\w+) in 0\.\.(\w+)\.len\(\)$')


def _t_rvec(line, arg=None):
    """Rvec: `for X in V {` (V a Vec consumed by value) -> `for verif_i_X in 0..V.len()` (header clauses follow, then `{`
    and the binding `let X = V[verif_i_X];`): the installed vstd has no specification for `vec::IntoIter`"""
    m = RVEC_RE.match(line)
    if not m:
        return line
    ind, x, v = m.groups()
    return '%sfor verif_i_%s in 0..%s.len()' % (ind, x, v)


def _t_verb(line, arg=None):
    """Rverb: `prefs.verbosity` -> `ol_verbosity(prefs)` (field of a struct that stays opaque to Verus: outlined accessor)"""
    return re.sub(r'\bprefs\.verbosity\b', 'ol_verbosity(prefs)', line)


RREF_RE = re.compile(r'^(\s*)for &(\w+) in (&?)([\w:]+) \{\s*$')
RREF_OUT = re.compile(r'^for verif_(r|s)_(\w+) in 0\.\.([\w:]+)\.len\(\)$')


def _t_rref(line, arg=None):
    """Rref: `for &X in &ARR {` -> `for verif_r_X in 0..ARR.len()` (header clauses follow, then `{` and the binding
    `let X = ARR[verif_r_X];`): reference patterns in `for` are outside the Verus subset"""
    m = RREF_RE.match(line)
    if not m:
        return line
    ind, x, amp, v = m.groups()
    return '%sfor verif_%s_%s in 0..%s.len()' % (ind, 'r' if amp else 's', x, v)


RTUP_RE = re.compile(r'^(\s*)for &\((\w+), (\w+)\) in (\w+) \{\s*$')
RTUP_OUT = re.compile(r'^let mut verif_it_(\w+)_(\w+) = 0; while verif_it_\w+ < (\w+)\.len\(\)$')


def _t_rtup(line, arg=None):
    """Rtup: `for &(A, B) in V {` (body may `continue`) -> `let mut verif_it_A_B = 0; while verif_it_A_B < V.len()`; the
    header clauses follow, then `{` and the prologue `let (A, B) = V[verif_it_A_B]; verif_it_A_B += 1;`"""
    m = RTUP_RE.match(line)
    if not m:
        return line
    ind, a, b, v = m.groups()
    return '%slet mut verif_it_%s_%s = 0; while verif_it_%s_%s < %s.len()' % (ind, a, b, a, b, v)


def _t_neut(line, arg=None):
    """Rneut: `Point(M128(0), self.one, self.one)` -> `ol_neutral128(self)` (constructor of a tuple struct that stays opaque
    to Verus: outlined, assumed to stand for the neutral element)"""
    return line.replace('Point(M128(0), self.one, self.one)', 'ol_neutral128(self)')


def _t_zn(line, arg=None):
    """Rzn: `zn.n` -> `ol_zn_n(zn)` (public field of a struct whose other fields are private: opaque to Verus outside
    its module; outlined accessor)"""
    return re.sub(r'\bzn\.n\b', 'ol_zn_n(zn)', line)


def _t_try(line, arg=None):
    """Rtry: `X.try_into() == Ok(C)` -> `ol_uint_eq_u64(X, C)` (bnum's TryFrom has no Verus specification; outlined with
    the assumed contract `r == (uv(X) == C)`)"""
    return re.sub(r'\b(\w+)\.try_into\(\) == Ok\(([^()]+)\)', r'ol_uint_eq_u64(\1, \2)', line)


def _t_egcd(line, arg=None):
    """Regcd: `Integer::extended_gcd(&(A as T), &(B as T))` (T = i64 / i128) -> `ol_egcd_T(A as T, B as T)`: provided trait
    methods of foreign traits cannot be given a specification; outlined with the assumed contract of Euclid's extended
    algorithm on non-negative operands"""
    return re.sub(r'Integer::extended_gcd\(&\((\w+) as (i64|i128)\), &\((\w+) as (i64|i128)\)\)', r'ol_egcd_\2(\1 as \2, \3 as \4)', line)


def _t_bconst(line, arg=None):
    """Rbconst: associated constants of bnum types (`BInt::<N>::ONE`, `BInt::<N>::ZERO`, `BInt::ZERO`, `BUint::ONE`, `BUint::ZERO`) -> outlined
    constructors `ol_bint_one::<N>()`, `ol_bint_zero::<N>()`, `ol_bint_zero()`, `ol_buint_one()` (associated constants of
    foreign types are unsupported); assumed contracts: the values 1 / 0"""
    line = re.sub(r'\bBInt::<N>::ONE\b', 'ol_bint_one::<N>()', line)
    line = re.sub(r'\bBInt::<N>::ZERO\b', 'ol_bint_zero::<N>()', line)
    line = re.sub(r'\bBInt::ZERO\b', 'ol_bint_zero()', line)
    line = re.sub(r'\bBUint::ZERO\b', 'ol_buint_zero()', line)
    return re.sub(r'\bBUint::ONE\b', 'ol_buint_one()', line)


def _t_egcd2(line, arg=None):
    """Regcd2: `Integer::extended_gcd(&A, &B)` (A, B variables) -> `ol_egcd_ref(A, B)`: provided trait methods of foreign traits
    cannot be given a specification; outlined with the assumed contract of Euclid's extended algorithm on non-negative operands"""
    return re.sub(r'Integer::extended_gcd\(&(\w+), &(\w+)\)', r'ol_egcd_ref(\1, \2)', line)


def _t_fsqrt(line, arg=None):
    """Rsqrt: `(X as f64).sqrt() as u64` -> `ol_f64_sqrt_u64(X)` (floating point is outside the Verus subset; outlined with
    an assumed accuracy contract)"""
    return re.sub(r'\((\w+) as f64\)\.sqrt\(\) as u64', r'ol_f64_sqrt_u64(\1)', line)


def _t_mq(line, arg=None):
    """Rmq: `s.fbase` -> `ol_mpqs_fbase(s)`, `s.inverters` -> `ol_mpqs_inverters(s)` (fields of mpqs::SieveMPQS, a struct
    holding locks and atomics that stays opaque to Verus: outlined accessors)"""
    line = re.sub(r'\bs\.fbase\b', 'ol_mpqs_fbase(s)', line)
    return re.sub(r'\bs\.inverters\b', 'ol_mpqs_inverters(s)', line)


TRANSFORMERS = [('Rbconst', _t_bconst), ('Regcd2', _t_egcd2), ('Rmq', _t_mq), ('Rsqrt', _t_fsqrt), ('Regcd', _t_egcd), ('Rneut', _t_neut), ('Rzn', _t_zn), ('Rtup', _t_rtup), ('Rmul', _t_mulassign), ('Rconst', _t_one_const), ('Rref', _t_rref), ('Rtry', _t_try), ('Rverb', _t_verb), ('Rvec', _t_rvec), ('Rone', _t_one_shl), ('Rdiv', _t_opassign), ('R10', _t_r10), ('Rit', _t_forit), ('Rfor', _t_forname), ('R8', _t_r8), ('Rsort', _t_sort), ('R7', _t_r7), ('R1', _t_r1), ('R1u', _t_unsafe), ('ret', _t_ret), ('brace', _t_brace)]


# line-local normalisations that need no accompanying ghost text: applied to current lines that have no pinned counterpart
FREE = ('Rbconst', 'Regcd2', 'Rmq', 'Rsqrt', 'Regcd', 'R1', 'R1u', 'Rconst', 'Rmul', 'Rdiv', 'Rverb', 'Rtry', 'Rone', 'Rsort', 'R8', 'Rzn', 'Rneut')


def free_normalise(line):
    for nm, fn in TRANSFORMERS:
        if nm in FREE:
            line = fn(line, None)
    return line


_INFER_CACHE = {}


def infer_transform(pinned_line, ann_line):
    """Find a subset of TRANSFORMERS mapping pinned_line to ann_line (modulo surrounding whitespace)."""
    ck = (pinned_line, ann_line)
    if ck in _INFER_CACHE:
        return _INFER_CACHE[ck]
    target = ann_line.strip()
    arg = None
    m = re.search(r'->\s*\((\w+)\s*:', ann_line)
    if m:
        arg = m.group(1)

    def search(idxs):
        n = len(idxs)
        for maskbits in range(1 << n):
            s = pinned_line
            used = []
            for k, ti in enumerate(idxs):
                if maskbits >> k & 1:
                    nm, fn = TRANSFORMERS[ti]
                    s = fn(s, arg)
                    used.append(nm)
            if s.strip() == target:
                return used
        return None

    # transformers that do something on the line itself first (the common case), then every subset
    app = [i for i, (nm, fn) in enumerate(TRANSFORMERS) if fn(pinned_line, arg) != pinned_line]
    used = search(app)
    if used is None and len(app) < len(TRANSFORMERS):
        used = search(list(range(len(TRANSFORMERS))))
    res = (used, arg) if used is not None else (None, None)
    _INFER_CACHE[ck] = res
    return res


def apply_transform(line, used, arg):
    s = line
    for nm, fn in TRANSFORMERS:
        if nm in used:
            s = fn(s, arg)
    return s


def key(line):
    """alignment key of a line: what it looks like once line-local normalisations are undone"""
    s = line.strip()
    if s == '{':
        return '<<brace>>'
    s = re.sub(r'ol_uint_one_shl\(([^()]*)\)', r'Uint::ONE << (\1)', s)
    s = s.replace('ol_verbosity(prefs)', 'prefs.verbosity')
    s = s.replace('ol_mpqs_fbase(s)', 's.fbase').replace('ol_mpqs_inverters(s)', 's.inverters')
    s = re.sub(r'ol_f64_sqrt_u64\((\w+)\)', r'(\1 as f64).sqrt() as u64', s)
    s = re.sub(r'ol_egcd_(i64|i128)\((\w+) as (i64|i128), (\w+) as (i64|i128)\)', r'Integer::extended_gcd(&(\2 as \3), &(\4 as \5))', s)
    s = s.replace('ol_zn_n(zn)', 'zn.n')
    s = s.replace('ol_bint_one::<N>()', 'BInt::<N>::ONE').replace('ol_bint_zero::<N>()', 'BInt::<N>::ZERO').replace('ol_bint_zero()', 'BInt::ZERO').replace('ol_buint_one()', 'BUint::ONE').replace('ol_buint_zero()', 'BUint::ZERO')
    s = re.sub(r'ol_egcd_ref\((\w+), (\w+)\)', r'Integer::extended_gcd(&\1, &\2)', s)
    s = s.replace('ol_neutral128(self)', 'Point(M128(0), self.one, self.one)')
    s = re.sub(r'ol_uint_eq_u64\((\w+), ([^()]+)\)', r'\1.try_into() == Ok(\2)', s)
    md = re.match(r'^(\w+) = (\w+) / (.+);$', s)
    if md and md.group(1) == md.group(2):
        return '%s /= %s;' % (md.group(1), md.group(3))
    s = s.replace('ol_u1024_one()', 'U1024::ONE').replace('ol_uint_one()', 'Uint::ONE')
    md = re.match(r'^(\w+) = (\w+) \* (.+);$', s)
    if md and md.group(1) == md.group(2):
        return '%s *= %s;' % (md.group(1), md.group(3))
    m10 = R10_OUT.match(s)
    if m10:
        return 'for %s in %s..%s' % (m10.group(1), m10.group(2), m10.group(3))
    s = re.sub(r'^for (\w+) in verif_it: ', r'for \1 in ', s)
    s = re.sub(r'^for verif_it in ', 'for _ in ', s)
    m8 = re.match(r'^let verif_t = (.*?); ((?:%s = verif_t\.\d; ?)+)$' % _PL, s)
    if m8:
        places = re.findall(r'(%s) = verif_t\.\d;' % _PL, m8.group(2))
        return '(%s) = %s;' % (', '.join(places), m8.group(1))
    if re.match(r'^\((%s(?:, %s){1,5})\) = (.*[^;])$' % (_PL, _PL), s):
        s = s + ';'   # a destructuring assignment that ends a block without `;`
    ms = re.match(r'^ol_sort\(&mut (\w+)\);$', s)
    if ms:
        return '%s.sort();' % ms.group(1)
    m = R7_OUT.match(s)
    if m:
        return 'for %s in [%s]' % (m.group(1), re.sub(r'\s+', ' ', m.group(2)))
    m = RVEC_OUT.match(s)
    if m:
        return 'for %s in %s' % (m.group(1), m.group(2))
    m = RREF_OUT.match(s)
    if m:
        return 'for &%s in %s%s' % (m.group(2), '&' if m.group(1) == 'r' else '', m.group(3))
    m = RTUP_OUT.match(s)
    if m:
        return 'for &(%s, %s) in %s' % (m.group(1), m.group(2), m.group(3))
    s = _sub_get_unchecked(s)
    s = re.sub(r'\bunsafe\s*\{', '{', s)
    if s == '{':
        return '<<brace>>'
    s = re.sub(r'->\s*\((\w+)\s*:\s*(.+)\)(\s*\{?)$', r'-> \2\3', s)
    if s.endswith('{'):
        s = s[:-1].rstrip()
    s = re.sub(r'\s+', ' ', s)
    return s


HEADER_KW = ('requires', 'ensures', 'decreases', 'recommends', 'invariant', 'invariant_except_break', 'no_unwind', 'opens_invariants')


class Script:
    """pinned -> annotated edit script"""

    def __init__(self, pinned_lines, ann_lines):
        P, A = pinned_lines, ann_lines
        Pk = [key(l) for l in P]
        Ak = [key(l) for l in A]
        sm = difflib.SequenceMatcher(a=Pk, b=Ak, autojunk=False)
        self.P, self.A = P, A
        self.exec_of = {}      # pinned idx -> ann idx (line kept, possibly transformed)
        self.ghost_before = {}  # pinned idx -> [ann lines] emitted before that pinned line
        self.tail_after = {}   # pinned idx -> [ann lines] tightly bound after it (header clauses)
        self.rigid = []        # (i1, i2, [ann lines]) pinned block replaced verbatim
        pending = []           # ghost ann indices waiting for the next exec line
        rigid_at = {}
        for tag, i1, i2, j1, j2 in sm.get_opcodes():
            if tag == 'equal':
                for d in range(i2 - i1):
                    self.exec_of[i1 + d] = j1 + d
            elif tag == 'insert':
                pass
            else:
                # replace / delete: blank or comment-only pinned lines may simply be dropped or kept
                self.rigid.append((i1, i2, list(range(j1, j2))))
                for i in range(i1, i2):
                    rigid_at[i] = len(self.rigid) - 1
        # ghost lines = ann lines that are neither exec images nor in rigid blocks
        exec_img = {j: i for i, j in self.exec_of.items()}
        in_rigid = set()
        for (_, _, js) in self.rigid:
            in_rigid.update(js)
        self.rigid_at = rigid_at
        # walk ann in order, attach ghosts
        last_exec_p = None
        tight = False
        self.ghost_end = []
        # positions: we need to know, for each ghost ann idx, the next pinned anchor; rigid blocks act as anchors too
        anchor_of_ann = {}
        for (bi, (i1, i2, js)) in enumerate(self.rigid):
            for j in js:
                anchor_of_ann[j] = ('rigid', bi)
        j = 0
        nA = len(A)
        ghosts = []
        while j < nA:
            if j in exec_img:
                pi = exec_img[j]
                if ghosts:
                    self.ghost_before.setdefault(pi, []).extend(ghosts)
                    ghosts = []
                last_exec_p = pi
                # header clause detection: exec line lost its trailing brace
                tight = (P[pi].rstrip().endswith('{') and not A[j].rstrip().endswith('{'))
                j += 1
                continue
            if j in in_rigid:
                bi = anchor_of_ann[j][1]
                if ghosts:
                    self.ghost_before.setdefault(('rigid', bi), []).extend(ghosts)
                    ghosts = []
                tight = False
                j += 1
                continue
            # ghost line
            if tight and last_exec_p is not None:
                self.tail_after.setdefault(last_exec_p, []).append(A[j])
                if A[j].strip() == '{':
                    tight = False
            else:
                ghosts.append(A[j])
            j += 1
        self.ghost_end = ghosts
        # per exec line transform
        self.transform = {}
        for pi, aj in self.exec_of.items():
            if P[pi].strip() != A[aj].strip():
                used, arg = infer_transform(P[pi], A[aj])
                if used is None:
                    raise ValueError("internal: key-equal lines without transformer:\n  %r\n  %r" % (P[pi], A[aj]))
                self.transform[pi] = (used, arg)

    def edits(self):
        """the catalogue of non-ghost edits (for evidence)"""
        out = []
        for pi, (used, arg) in sorted(self.transform.items()):
            out.append({'rule': '+'.join(used), 'before': self.P[pi].strip(), 'after': self.A[self.exec_of[pi]].strip()})
        for (i1, i2, js) in self.rigid:
            before = [l.strip() for l in self.P[i1:i2]]
            after = [self.A[j].strip() for j in js]
            if all(b == '' or b.startswith('//') for b in before) and not after:
                continue
            out.append({'rule': 'rewrite', 'before': before, 'after': after})
        return out

    def replay_on(self, cur_lines):
        """Transplant the script onto cur_lines (the current text of the item)."""
        P = self.P
        norm = lambda l: re.sub(r'\s+', ' ', l.strip())
        sm = difflib.SequenceMatcher(a=[norm(l) for l in P], b=[norm(l) for l in cur_lines], autojunk=False)
        out = []
        src_trace = []   # indices of cur lines consumed, in order
        done_rigid = set()
        dropped_tails = set()

        def emit_pinned_line(pi, cur_line, cj):
            # pinned line pi is represented in the current text by cur_line
            if pi in self.rigid_at:
                bi = self.rigid_at[pi]
                i1, i2, js = self.rigid[bi]
                if norm(cur_line) != norm(P[pi]):
                    # blank/comment lines dropped by the annotation may change freely
                    if all(norm(x) == '' or norm(x).startswith('//') for x in P[i1:i2]) and not js:
                        src_trace.append(cj)
                        return
                    raise Undecided("a rewritten line changed: %r" % P[pi].strip())
                if bi not in done_rigid:
                    done_rigid.add(bi)
                    out.extend(self.ghost_before.get(('rigid', bi), []))
                    out.extend(self.A[j] for j in js)
                src_trace.append(cj)
                return
            out.extend(self.ghost_before.get(pi, []))
            if pi in self.transform:
                used, arg = self.transform[pi]
                if norm(cur_line) != norm(P[pi]) and set(used) & {'R7', 'Rvec', 'Rref', 'Rtup'}:
                    # the binding `let X = ARR[verif_i];` that follows the clauses names the pinned iterable
                    raise Undecided("a rewritten loop header changed: %r" % cur_line.strip())
                new = apply_transform(cur_line, used, arg)
                if norm(cur_line) == norm(P[pi]):
                    new = self.A[self.exec_of[pi]]
                elif 'brace' in used and not cur_line.rstrip().endswith('{'):
                    raise Undecided("header line lost its brace: %r" % cur_line.strip())
                out.append(new)
            else:
                if norm(cur_line) == norm(P[pi]):
                    out.append(self.A[self.exec_of[pi]])
                else:
                    out.append(free_normalise(cur_line))
            src_trace.append(cj)
            out.extend(self.tail_after.get(pi, []))

        def toks(ls):
            return [x for l in ls for x in _code_tokens(l)]

        for tag, i1, i2, j1, j2 in sm.get_opcodes():
            if tag == 'equal':
                for d in range(i2 - i1):
                    emit_pinned_line(i1 + d, cur_lines[j1 + d], j1 + d)
            elif tag == 'replace' and toks(P[i1:i2]) == toks(cur_lines[j1:j2]):
                # the same tokens laid out on other lines (re-formatting): the block is the pinned block
                k = len(src_trace)
                for pi in range(i1, i2):
                    emit_pinned_line(pi, P[pi], None)
                del src_trace[k:]
                src_trace.extend(range(j1, j2))
            elif tag == 'replace' and (i2 - i1) == (j2 - j1):
                for d in range(i2 - i1):
                    emit_pinned_line(i1 + d, cur_lines[j1 + d], j1 + d)
            else:
                # block of pinned lines replaced by a block of a different size (or pure insert/delete)
                for pi in range(i1, i2):
                    if pi in self.rigid_at:
                        bi = self.rigid_at[pi]
                        bi1, bi2, js = self.rigid[bi]
                        if all(norm(x) == '' or norm(x).startswith('//') for x in P[bi1:bi2]) and not js:
                            continue
                        raise Undecided("a rewritten block changed near %r" % P[pi].strip())
                    if pi in self.transform and ('brace' in self.transform[pi][0] or 'R7' in self.transform[pi][0] or 'Rvec' in self.transform[pi][0] or 'Rref' in self.transform[pi][0] or 'Rtup' in self.transform[pi][0]):
                        # the annotated loop / fn header no longer exists in this form: its clauses are orphaned.
                        # They are dropped (a loop that is gone has no invariant); what the changed code must
                        # still satisfy is decided by the remaining obligations.
                        dropped_tails.add(pi)
                if i1 < i2:
                    out.extend(self.ghost_before.get(i1, []))
                for cj in range(j1, j2):
                    out.append(free_normalise(cur_lines[cj]))
                    src_trace.append(cj)
                # ghost text interior to a restructured block belonged to code that no longer exists: dropped
        out.extend(self.ghost_end)
        if src_trace != list(range(len(cur_lines))):
            raise Undecided("internal: overlay did not consume the current text exactly once")
        return out



# --------------------------------------------------------------------------- renamed locals

_TOK = re.compile(r"[A-Za-z_]\w*|\d\w*|\S")
_IDENT = re.compile(r"^[A-Za-z_]\w*$")


def _code_tokens(line):
    return _TOK.findall(re.sub(r'//.*$', '', line))


def infer_renames(pinned, ann, cur):
    """Identifiers of the pinned text that no longer occur in the current text, paired with the new identifiers
    that stand at the same token positions of otherwise identical lines. The pairing must be consistent,
    one-to-one and must not capture a name used by the annotations; otherwise no renaming is inferred (and the
    unit is handled as before). The renaming is applied to the *annotations* (pinned + ghost text) only: the
    executable lines that are verified are still those of the current text."""
    idents = lambda txt: set(x for l in txt.split('\n') for x in _code_tokens(l) if _IDENT.match(x))
    ip, ic, ia = idents(pinned), idents(cur), idents(ann)
    old, new = ip - ic, ic - ip
    if not old or not new:
        return {}
    mask = lambda l, s: ' '.join('\u00a7' if x in s else x for x in _code_tokens(l))
    P = [l for l in pinned.split('\n')]
    C = [l for l in cur.split('\n')]
    sm = difflib.SequenceMatcher(a=[mask(l, old) for l in P], b=[mask(l, new) for l in C], autojunk=False)
    ren = {}
    for tag, i1, i2, j1, j2 in sm.get_opcodes():
        if tag != 'equal':
            continue
        for d in range(i2 - i1):
            tp, tc = _code_tokens(P[i1 + d]), _code_tokens(C[j1 + d])
            if len(tp) != len(tc):
                return {}
            for a, b in zip(tp, tc):
                if a in old or b in new:
                    if not (a in old and b in new):
                        return {}
                    if ren.setdefault(a, b) != b:
                        return {}
    if len(set(ren.values())) != len(ren):
        return {}
    if any(b in ia for b in ren.values()):
        return {}
    return ren


def apply_renames(txt, ren):
    for a, b in ren.items():
        txt = re.sub(r'(?<![\w])%s(?![\w])' % re.escape(a), b, txt)
    return txt

# --------------------------------------------------------------------------- canary

def make_canary(ann_text, name):
    lines = ann_text.split('\n')
    # locate fn line
    fi = None
    for i, l in enumerate(lines):
        if re.search(r'\bfn\s+%s\b' % re.escape(name), l):
            fi = i
            break
    if fi is None:
        raise Undecided("canary: fn %s not found in annotated text" % name)
    lines[fi] = re.sub(r'\bfn\s+%s\b' % re.escape(name), 'fn %s__canary' % name, lines[fi], count=1)
    # header end
    has_clause = False
    end = None
    ens = None
    dec = None
    for i in range(fi, len(lines)):
        s = lines[i].strip()
        w = s.split('(')[0].split(' ')[0].rstrip(',')
        if i > fi or True:
            if w in HEADER_KW and i > fi:
                has_clause = True
                if w == 'ensures' and ens is None:
                    ens = i
                if w == 'decreases' and dec is None:
                    dec = i
        if has_clause:
            if s == '{':
                end = i
                break
        else:
            if s.endswith('{') and i >= fi:
                end = i
                break
    if end is None:
        raise Undecided("canary: header end of %s not found" % name)
    if ens is not None:
        lines[ens] = re.sub(r'\bensures\b', 'ensures false,', lines[ens], count=1)
    elif has_clause:
        at = dec if dec is not None else end
        lines.insert(at, '    ensures false,')
    else:
        lines[end] = lines[end].rstrip()[:-1].rstrip()
        lines.insert(end + 1, '    ensures false,')
        lines.insert(end + 2, '{')
    # drop doc comments; a raised rlimit only makes the (expected) failure of the twin slower
    lines = [l for l in lines if not l.strip().startswith('///') and not re.match(r'\s*#\[verifier::rlimit\(', l)]
    return '\n'.join(lines)


# --------------------------------------------------------------------------- apply

def sha(s):
    return hashlib.sha256(s.encode()).hexdigest()[:16]


def apply_overlay(repo_src_dir, out_src_dir, units, canary=False, only_files=None):
    """Write annotated copies of the files that carry units. Other files must already have been copied.
    Returns report: per unit {id, file, status: 'pinned'|'transplanted', sha_current, edits, lines:(lo,hi)}"""
    by_file = {}
    for u in units:
        by_file.setdefault(u.file, []).append(u)
    report = {}
    files = []
    for root, _, fs in os.walk(repo_src_dir):
        for f in fs:
            rel = os.path.relpath(os.path.join(root, f), repo_src_dir)
            if f.endswith('.rs') and not rel.startswith('bin' + os.sep) and not rel.startswith('verif_specs'):
                files.append('src/' + rel)
    for file in by_file:
        if file not in files:
            raise Undecided("file %s of unit %s not found" % (file, by_file[file][0].id))
    for file in sorted(files):
        rel = file[4:]
        src = open(os.path.join(repo_src_dir, rel)).read()
        repl = []
        hoisted = []
        for u in by_file.get(file, []):
            try:
                s, e = rustscan.find_item(src, u.name, u.kind, u.container, u.nth)
            except rustscan.ScanError as ex:
                raise Undecided("unit %s: %s" % (u.id, ex), unit=u.id)
            cur = src[s:e]
            pre = u.meta.get('pre')
            u_pinned, u_ann = u.pinned, u.ann
            renames = {}
            if cur != u.pinned:
                renames = infer_renames(u.pinned, u.ann, cur)
                if renames:
                    u_pinned, u_ann = apply_renames(u.pinned, renames), apply_renames(u.ann, renames)
            script = Script(apply_pre(u_pinned, pre).split('\n'), u_ann.split('\n'))
            if cur == u.pinned:
                new = u.ann
                status = 'pinned'
            elif cur == u_pinned:
                new = u_ann
                status = 'transplanted'
            else:
                try:
                    new = '\n'.join(script.replay_on(apply_pre(cur, pre).split('\n')))
                except Undecided as ex:
                    raise Undecided("unit %s: %s" % (u.id, ex), unit=u.id)
                status = 'transplanted'
            text = 'verus! { // @unit %s\n' % u.id
            if u.meta.get('hoist'):
                # methods with `&mut` parameters cannot be wrapped alone inside a foreign `impl`: the method is moved,
                # verbatim, into an `impl` block of its own at the end of the file
                text += u.container + ' {\n'
            text += new if new.endswith('\n') else new + '\n'
            if canary and u.canary:
                text += make_canary(new, u.name).rstrip('\n') + '\n'
            if u.meta.get('hoist'):
                text += '}\n'
            text += '} // verus! @end %s\n' % u.id
            if u.meta.get('hoist'):
                hoisted.append(text)
                text = ''
            repl.append((s, e, text))
            report[u.id] = {'id': u.id, 'file': file, 'status': status, 'sha_current': sha(cur),
                            'sha_pinned': sha(u.pinned), 'edits': ([{'rule': 'pre:' + x, 'before': PRE_DOC[x][0], 'after': PRE_DOC[x][1]} for x in (pre or [])] + [{'rule': 'rename-in-annotations', 'before': a, 'after': b} for a, b in sorted(renames.items())] + script.edits()), 'props': u.props,
                            'kind': u.kind}
        repl.sort()
        for k in range(1, len(repl)):
            if repl[k][0] < repl[k - 1][1]:
                raise Undecided("overlapping units in " + file)
        out = []
        pos = 0
        for s, e, text in repl:
            out.append(src[pos:s])
            out.append(text)
            pos = e
        out.append(src[pos:])
        res = ''.join(out)
        res += '\n' + '\n'.join(hoisted)
        res += '\n#[allow(unused_imports)] use vstd::prelude::*;\n#[allow(unused_imports)] use crate::verif_specs::*;\n'
        if file == 'src/lib.rs':
            res += '\npub mod verif_specs;\n'
        ap = os.path.join(CONTRACTS, stem_of(file), '_appendix.rs')
        if os.path.exists(ap):
            res += '\n// ---- verif appendix ----\n' + open(ap).read()
        dst = os.path.join(out_src_dir, rel)
        os.makedirs(os.path.dirname(dst), exist_ok=True)
        with open(dst, 'w') as f:
            f.write(res)
    # specs
    sd = os.path.join(out_src_dir, 'verif_specs')
    os.makedirs(sd, exist_ok=True)
    for f in os.listdir(SPECS):
        if f.endswith('.rs'):
            with open(os.path.join(SPECS, f)) as fi, open(os.path.join(sd, f), 'w') as fo:
                fo.write(fi.read())
    return report


def line_map(out_src_dir, files):
    """for each file: list of (lo, hi, unit_id) line ranges (1-based, inclusive) of unit blocks"""
    res = {}
    for file in files:
        rel = file[4:]
        rng = []
        cur = None
        for ln, l in enumerate(open(os.path.join(out_src_dir, rel)), 1):
            m = re.match(r'verus! \{ // @unit (\S+)', l.strip())
            if m:
                cur = (ln, m.group(1))
                continue
            m = re.match(r'\} // verus! @end (\S+)', l.strip())
            if m and cur:
                rng.append((cur[0], ln, cur[1]))
                cur = None
        res[file] = rng
    return res


# --------------------------------------------------------------------------- capture (authoring)

def capture(work_src_dir, repo_src_dir, file, name, kind='fn', container=None, nth=0, props=None, canary=None, hoist=None, pre=None):
    rel = file[4:]
    wsrc = open(os.path.join(work_src_dir, rel)).read()
    rsrc = open(os.path.join(repo_src_dir, rel)).read()
    ps, pe = rustscan.find_item(rsrc, name, kind, container, nth)
    pinned = rsrc[ps:pe]
    ws, we = rustscan.find_item(wsrc, name, kind, container, nth)
    ann = wsrc[ws:we]
    meta = {'file': file, 'name': name, 'kind': kind}
    if container:
        meta['container'] = container
    if nth:
        meta['nth'] = nth
    path = unit_path(file, container, name, nth)
    if os.path.exists(path):
        old = Unit(path)
        meta['props'] = old.props
        if 'canary' in old.meta:
            meta['canary'] = old.meta['canary']
        if 'hoist' in old.meta:
            meta['hoist'] = old.meta['hoist']
        if 'pre' in old.meta:
            meta['pre'] = old.meta['pre']
    if pre:
        meta['pre'] = pre
    if props is not None:
        meta['props'] = props
    if canary is not None:
        meta['canary'] = canary
    if hoist:
        meta['hoist'] = True
    meta.setdefault('props', [])
    # self-check: replaying the script on the pinned text must give the annotated text
    pn = apply_pre(pinned, meta.get('pre'))
    sc = Script(pn.split('\n'), ann.split('\n'))
    back = '\n'.join(sc.replay_on(pn.split('\n')))
    if back != ann:
        import sys
        d = '\n'.join(difflib.unified_diff(ann.split('\n'), back.split('\n'), 'annotated', 'replayed', lineterm=''))
        sys.stderr.write("WARNING: replay(pinned) != annotated for %s\n%s\n" % (name, d))
        raise ValueError("capture self-check failed for " + name)
    Unit.write(path, meta, pinned, ann)
    return path, sc.edits()
