"""Per-property check: overlay -> Verus (+ canary) [+ Kani, + algebra] -> verdict, evidence, replay files."""
import concurrent.futures
import hashlib
import json
import os
import re
import sys
import time
import traceback

from . import overlay, verus
from .overlay import Undecided

VERIF = verus.VERIF
# runs against a scratch tree (seeded changes, mutation experiments) must not overwrite the evidence of the real tree
EVIDENCE = os.environ.get('YQV_EVIDENCE') or os.path.join(VERIF, 'evidence')
REPLAYS = os.environ.get('YQV_REPLAYS') or os.path.join(VERIF, 'replays')
KNOWN = os.path.join(VERIF, 'known_findings.jsonl')
ALLOW = os.path.join(VERIF, 'trusted_allow.json')
PROPMAP = os.path.join(VERIF, 'propmap.json')

VERIF_MSGS = [
    ('index in bounds for this access', 'bounds'),
    ('postcondition not satisfied', 'postcondition'),
    ('precondition not satisfied', 'precondition'),
    ('precondition not met', 'precondition'),
    ('assertion failed', 'assert'),
    ('requires not satisfied', 'assert'),   # the `requires` of an `assert ... by (bit_vector / nonlinear_arith) requires ...`
    ('possible arithmetic underflow/overflow', 'overflow'),
    ('possible division by zero', 'div-by-zero'),
    ('possible bit shift underflow/overflow', 'shift'),
    ('invariant not satisfied before loop', 'invariant-entry'),
    ('invariant not satisfied at end of loop body', 'invariant-preserved'),
    ('loop invariant not satisfied', 'invariant'),
    ('decreases not satisfied', 'termination'),
    ('could not prove termination', 'termination'),
    ('failed this postcondition', None),
    ('failed precondition', None),
    ('at this exit', None),
    ('recommendation not met', 'recommends'),
    ('unable to prove assertion safely', 'assert'),
    ('cannot show invariant holds', 'invariant'),
    ('possible truncation', 'truncation'),
    ('bit-vector assertion', 'assert-bv'),
    ('assertion failed (nonlinear', 'assert-nl'),
    ('ensures not satisfied at break', 'loop-ensures'),
    ('loop ensures not satisfied', 'loop-ensures'),
    ('index out of bounds', 'bounds'),
    ('constructed value may fail to meet its declared type invariant', 'type-invariant'),
    ('while loop: not all errors may have been reported', None),
    ('this function is incomplete', None),
]
RLIMIT_MSGS = ('rlimit', 'Resource limit', 'resource limit', 'timed out', 'canceled')


def classify(msg):
    for pat, kind in VERIF_MSGS:
        if pat in msg:
            return kind or 'aux'
    return None


def scan_trusted():
    """mechanical scan of specs + contracts for everything that is assumed rather than proved"""
    pats = [r'\bassume\s*\(', r'\badmit\s*\(', r'external_body', r'assume_specification', r'external_type_specification',
            r'external_trait_specification', r'external_fn_specification', r'\baxiom_\w+', r'exec_allows_no_decreases_clause',
            r'\buninterp\b', r'verifier::external\b', r'verifier::truncate', r'#\[verifier::loop_isolation']
    rx = re.compile('|'.join(pats))
    hits = []
    roots = [overlay.SPECS, overlay.CONTRACTS]
    for r in roots:
        for root, _, files in os.walk(r):
            for f in sorted(files):
                if not f.endswith('.rs'):
                    continue
                p = os.path.join(root, f)
                txt = open(p).read()
                if root.startswith(overlay.CONTRACTS) and f != '_appendix.rs':
                    # only the annotated half of a unit file
                    k = txt.find('//! ---- annotated ----')
                    txt = txt[k:] if k >= 0 else txt
                for l in txt.split('\n'):
                    s = l.strip()
                    if s.startswith('//'):
                        continue
                    if rx.search(s):
                        # `use ...axiom_...` lines and calls of axioms are uses, the declaration is what counts
                        hits.append('%s: %s' % (os.path.relpath(p, VERIF), re.sub(r'\s+', ' ', s)[:220]))
    return sorted(set(hits))


def load_known():
    out = []
    if os.path.exists(KNOWN):
        for l in open(KNOWN):
            l = l.strip()
            if l and not l.startswith('#'):
                out.append(json.loads(l))
    return out


def load_propmap():
    return json.load(open(PROPMAP))


class Failure:
    def __init__(self, prop, unit, kind, line_text, message, detail, engine='verus'):
        self.prop, self.unit, self.kind, self.line_text = prop, unit, kind, line_text
        self.message, self.detail, self.engine = message, detail, engine
        self.witness = None

    @property
    def obligation(self):
        return '%s/%s@"%s"' % (self.unit, self.kind, self.line_text)

    def matches(self, k):
        """a known-finding entry matches by unit + kind + normalised source line"""
        if k.get('status', 'open') != 'open' or k.get('property') != self.prop:
            return False
        if k.get('unit') != self.unit:
            return False
        if k.get('kind') and k['kind'] != self.kind:
            return False
        if k.get('line') and re.sub(r'\s+', ' ', k['line'].strip()) != re.sub(r'\s+', ' ', self.line_text.strip()):
            return False
        return True


def verus_phase(prop, units_sel, tier, canary):
    """returns dict with failures, stats; raises Undecided"""
    ws = verus.Workspace(canary=canary)
    try:
        mods = sorted(set(overlay.module_of(u.file) for u in units_sel))
        specmods = ['verif_specs'] + sorted('verif_specs::' + f[:-3] for f in os.listdir(overlay.SPECS)
                                            if f.endswith('.rs') and f != 'mod.rs')
        rl = None if tier == 'quick' else 40
        res = verus.run_verus(ws, modules=mods + ([] if canary else specmods), rlimit=rl, threads=8)
        if not canary and any(any(x in d['message'] for x in RLIMIT_MSGS) for d in res['diags'] if d['level'] == 'error'):
            # the solver gave up somewhere: one retry with ten times the budget before concluding anything
            res = verus.run_verus(ws, modules=mods + specmods, rlimit=(rl or 10) * 10, threads=8)
        js = res['json']
        if js is None:
            raise Undecided("verus produced no JSON (rc %d): %s" % (res['rc'], res['stderr'][-1500:]))
        vr = js.get('verification-results', {})
        errs = [d for d in res['diags'] if d['level'] == 'error']
        if vr.get('encountered-vir-error') or (vr.get('encountered-error') and not any(classify(d['message']) for d in errs)):
            msgs = '; '.join('%s (%s:%s)' % (d['message'], d['file'], d['line']) for d in errs[:5])
            where = [ws.unit_at(d['file'], d['line']) for d in errs if d['file'] and d['line']]
            where = [w for w in where if w]
            raise Undecided("compile / unsupported-construct error in the overlaid crate: " + msgs, unit=where[0] if where else None)
        fr = verus.function_results(res)
        uids = set(u.id for u in units_sel)
        failures = []
        other = []
        for d in errs:
            if any(x in d['message'] for x in RLIMIT_MSGS):
                if canary:
                    continue
                uid = ws.unit_at(d['file'], d['line']) if d['file'] else None
                if uid in uids and ws.report.get(uid, {}).get('status') == 'transplanted':
                    # The unit verified within the budget on the unchanged tree; its code was changed and the solver
                    # now gives up even with ten times the budget: reported as a failed obligation of that unit.
                    failures.append(Failure(prop, uid, 'solver-gave-up', ws.line_text(d['file'], d['line']), d['message'],
                                            'the changed unit no longer verifies: ' + d['message'] + ' (10x resource limit)'))
                    continue
                raise Undecided("solver resource limit: %s (%s:%s)" % (d['message'], d['file'], d['line']))
            kind = classify(d['message'])
            if kind is None:
                if d['message'].startswith('aborting due to') or d['message'].startswith('could not compile'):
                    continue
                raise Undecided("unclassified verus error: %s (%s:%s)" % (d['message'], d['file'], d['line']))
            if kind == 'aux':
                continue
            file = d['file']
            uid = ws.unit_at(file, d['line']) if file else None
            text = ws.line_text(file, d['line']) if file else ''
            detail = '\n'.join([d['level'] + ': ' + d['message']] + d['body'][:30])
            if file and file.startswith('src/verif_specs'):
                raise Undecided("a library lemma failed (solver instability?): %s at %s:%s" % (d['message'], file, d['line']))
            if uid in uids:
                failures.append(Failure(prop, uid, kind, text, d['message'], detail))
            else:
                other.append('%s %s:%s %s' % (uid, file, d['line'], d['message']))
        # per unit: was the function actually verified (present in the SMT breakdown)?
        unit_stats = {}
        for u in units_sel:
            if u.kind != 'fn':
                continue
            suffix = '::' + u.name
            cands = [k for k in fr if k.startswith('yamaquasi::' + overlay.module_of(u.file)) and k.endswith(suffix)]
            cn = [k for k in fr if k.startswith('yamaquasi::' + overlay.module_of(u.file)) and k.endswith(suffix + '__canary')]
            unit_stats[u.id] = {
                'functions': {k: {'ok': fr[k].get('success'), 'ms': fr[k].get('time')} for k in cands},
                'canary': {k: fr[k].get('success') for k in cn},
            }
        return {'failures': failures, 'other': other, 'verified': vr.get('verified', 0), 'errors': vr.get('errors', 0),
                'unit_stats': unit_stats, 'wall_s': res['wall_s'], 'cmd': res['cmd'], 'report': ws.report,
                'smt_ms': js.get('times-ms', {}).get('smt', {}).get('smt-run', 0), 'fr': fr}
    finally:
        ws.close()


def write_replay(prop, fail):
    os.makedirs(REPLAYS, exist_ok=True)
    h = hashlib.sha256((fail.obligation + fail.detail).encode()).hexdigest()[:10]
    p = os.path.join(REPLAYS, '%s-%s-%s.json' % (prop, re.sub(r'[^A-Za-z0-9]+', '_', fail.unit), h))
    json.dump({'property': prop, 'unit': fail.unit, 'obligation': fail.obligation, 'engine': fail.engine,
               'kind': fail.kind, 'source_line': fail.line_text, 'verifier_output': fail.detail,
               'witness': fail.witness,
               'note': 'obligation discharged on the unchanged tree, fails on the current tree'},
              open(p, 'w'), indent=1)
    return p


def check_property(prop, tier='quick', seed=0):
    t0 = time.time()
    pm = load_propmap()
    if prop not in pm:
        print("property %s is not claimed (see MANIFEST not_applicable)" % prop)
        return 2
    spec = pm[prop]
    units = overlay.load_units()
    if spec.get('all_units'):
        sel = list(units)
    else:
        sel = [u for u in units if prop in u.props]
    failures = []
    stats = {}
    undecided = None
    extra_cov = {}
    try:
        # trusted-base scan against the committed allow-list
        trusted = scan_trusted()
        allow = set(json.load(open(ALLOW))) if os.path.exists(ALLOW) else set()
        new = [t for t in trusted if t not in allow]
        if new:
            raise Undecided("trusted-base scan: %d assumption(s) not in trusted_allow.json, e.g. %s" % (len(new), new[0]))
        if sel:
            with concurrent.futures.ThreadPoolExecutor(2) as ex:
                f1 = ex.submit(verus_phase, prop, sel, tier, False)
                f2 = ex.submit(verus_phase, prop, sel, tier, True)
                main = f1.result()
                can = f2.result()
            failures += main['failures']
            stats['verus'] = main
            # every contracted fn must have been verified for real ...
            missing = [uid for uid, st in main['unit_stats'].items() if not st['functions']]
            if missing:
                raise Undecided("unit(s) not seen by the verifier (became external?): " + ', '.join(missing))
            # ... and its `ensures false` twin must fail (only meaningful for units that verified)
            failed_units = set(f.unit for f in failures)
            vac = []
            for u in sel:
                if u.kind != 'fn' or not u.canary or u.id in failed_units:
                    continue
                c = can['unit_stats'].get(u.id, {}).get('canary', {})
                if not c:
                    vac.append(u.id + ' (canary not run)')
                elif any(v for v in c.values()):
                    vac.append(u.id)
            if vac:
                raise Undecided("vacuity guard: `ensures false` twin verified for " + ', '.join(vac))
            stats['canary'] = can
        for eng in spec.get('engines', []):
            mod = __import__('yqv.' + eng['module'], fromlist=['run'])
            r = mod.run(prop, eng, tier, seed)
            failures += r.get('failures', [])
            stats[eng['module']] = r
        # Regression inputs of the findings recorded as fixed for this property (regressions.json, committed): code that is
        # not under contract (qsieve64, squfof, kernel_gauss, pm1_impl) can only show a returning defect by running it.
        # The inputs are executed on the real code (dev profile: overflow and debug checks on); this is a bounded
        # stand-in, listed as such and never counted as proved; a failing input is a violation with that input.
        try:
            regs = json.load(open(os.path.join(VERIF, 'regressions.json'))).get(prop, [])
        except (OSError, ValueError):
            regs = []
        if regs:
            from . import replay
            rg = {'obligations': 0, 'discharged': 0, 'backend': 'regression inputs of fixed findings (bounded stand-in)', 'samples': [], 'bounded': [], 'cmds': []}
            for case in regs:
                r_iters, r_to = (300, 300) if tier != 'thorough' else (100000, 1200)
                w = replay.run_case(verus.REPO, case, seed, r_iters, 'dev', timeout=r_to)
                if w and str(w.get('failing_input', '')).startswith('timeout after'):
                    rg['bounded'].append('regression / probe case %s: stopped after %d s (inconclusive)' % (case, r_to))
                    w = None
                else:
                    rg['bounded'].append('regression / probe case %s (dev profile, its fixed inputs + %d structured random inputs): %s' % (case, r_iters, 'FAILING INPUT' if w else 'no failing input'))
                if w:
                    f = Failure(prop, 'regression::' + case, 'regression', case, w.get('failing_input', '')[:200],
                                'an input recorded with a fixed finding of %s fails again on the real code' % prop, engine='replay')
                    f.witness = w
                    failures.append(f)
            if tier != 'thorough':
                replay.cleanup()
            stats['regress'] = rg
        if tier == 'thorough' and sel:
            # Exploration beyond the proofs (bounded, never counted as proved): the executable mirrors of the contracts
            # are run on the real code with structured random inputs. Units with an open known finding are left out
            # (their regression inputs are the known findings themselves). A failing input here is a real behaviour of
            # the real code, reported as a violation of the unit's contract.
            from . import replay
            open_units = set(k['unit'] for k in load_known())
            done_cases = set()
            ex_stats = {'obligations': 0, 'discharged': 0, 'backend': 'replay exploration (bounded stand-in)', 'samples': [], 'bounded': [], 'cmds': []}
            for u in sel:
                if u.kind != 'fn' or u.id in open_units or u.id in set(f.unit for f in failures):
                    continue
                for case in replay.cases_for(u.id):
                    if case in done_cases:
                        continue
                    done_cases.add(case)
                    w = None
                    for profile in ('dev', 'release'):
                        w = replay.run_case(verus.REPO, case, seed, 100000, profile, timeout=900)
                        if w and str(w.get('failing_input', '')).startswith('timeout after'):
                            w = None   # the exploration budget ran out: inconclusive, not a failure
                            ex_stats['bounded'].append('replay case %s (%s): stopped after 900 s' % (case, profile))
                        if w:
                            break
                    ex_stats['bounded'].append('replay case %s: 100000 structured random inputs per profile (dev, release), seed %s: %s'
                                               % (case, seed, 'FAILING INPUT' if w else 'no failing input'))
                    if w:
                        f = Failure(prop, u.id, 'explored-input', case, w.get('failing_input', '')[:200],
                                    'the executable contract of %s fails on the real code for a concrete input' % u.id, engine='replay')
                        f.witness = w
                        failures.append(f)
            replay.cleanup()
            stats['explore'] = ex_stats
    except Undecided as ex:
        undecided = str(ex)
        # The annotations no longer apply to a changed unit (or the changed code left the verifier's subset).
        # That alone decides nothing; but if the unit's executable contract finds a concrete failing input on
        # the real code, the violation is established by that input.
        unit = getattr(ex, 'unit', None)
        if unit and any(u.id == unit for u in sel):
            from . import replay
            f = Failure(prop, unit, 'unverifiable-change', 'annotations no longer apply', str(ex)[:300],
                        'the overlay / verifier could not process the changed unit: %s' % ex, engine='replay')
            try:
                if replay.search(f, tier, seed):
                    failures.append(f)
                    undecided = None
            except Exception:
                pass
            replay.cleanup()
    except Exception:
        undecided = 'internal error: ' + traceback.format_exc()[-1500:]
    wall = time.time() - t0
    if undecided:
        print("UNDECIDED property=%s: %s" % (prop, undecided))
        write_evidence(prop, tier, seed, spec, sel, stats, [], [], wall, undecided=undecided)
        return 2
    known = load_known()
    viol = []
    kf = []
    for f in failures:
        ks = [k for k in known if f.matches(k)]
        if ks:
            kf.append((f, ks[0]))
        else:
            viol.append(f)
    seen = set()
    for f, k in kf:
        if k['id'] in seen:
            continue
        seen.add(k['id'])
        print("KNOWN-FINDING: property=%s %s: %s [%s]" % (prop, k['id'], k['what'], f.obligation))
    rc = 0
    for f in viol:
        from . import replay
        try:
            replay.search(f, tier, seed)
        except Exception as ex:  # the search is best effort
            print("replay search failed: %r" % (ex,))
        p = write_replay(prop, f)
        tail = '' if f.witness else ' no-failing-input-found'
        print("obligation failed: %s\n%s" % (f.obligation, f.detail))
        print("VIOLATION property=%s replay=%s%s" % (prop, p, tail))
        rc = 1
    if viol:
        from . import replay
        replay.cleanup()
    write_evidence(prop, tier, seed, spec, sel, stats, viol, kf, wall)
    if rc == 0:
        v = stats.get('verus', {})
        print("property %s: held (%d verus obligations over %d units%s; %.1f s)" % (
            prop, v.get('verified', 0), len(sel),
            ''.join('; %s: %s' % (k, s.get('summary', 'ok')) for k, s in stats.items() if k not in ('verus', 'canary')), wall))
    return rc


def write_evidence(prop, tier, seed, spec, sel, stats, viol, kf, wall, undecided=None):
    os.makedirs(EVIDENCE, exist_ok=True)
    v = stats.get('verus', {})
    obligations = v.get('verified', 0) + v.get('errors', 0)
    discharged = v.get('verified', 0)
    backends = {'verus(z3)': v.get('verified', 0)} if v else {}
    bounded = []
    checker = [v.get('cmd', '')] if v else []
    samples = []
    for k, s in stats.items():
        if k in ('verus', 'canary'):
            continue
        obligations += s.get('obligations', 0)
        discharged += s.get('discharged', 0)
        backends[s.get('backend', k)] = s.get('discharged', 0)
        bounded += s.get('bounded', [])
        checker += s.get('cmds', [])
        samples += s.get('samples', [])[:6]
    # obligations that fail only as listed known findings are reported apart (they are neither discharged nor violations)
    obligations = discharged + len(viol)
    units_out = []
    rep = v.get('report', {})
    for u in sel:
        r = rep.get(u.id, {})
        st = v.get('unit_stats', {}).get(u.id, {})
        units_out.append({'unit': u.id, 'file': u.file, 'kind': u.kind, 'overlay': r.get('status'),
                          'sha_current': r.get('sha_current'), 'normalisation_edits': r.get('edits', []),
                          'verified_functions': st.get('functions', {}),
                          'canary_failed_as_required': (not any(st2 for st2 in
                                                        stats.get('canary', {}).get('unit_stats', {}).get(u.id, {}).get('canary', {}).values()))
                          if u.kind == 'fn' and u.canary else None})
        if u.kind == 'fn':
            samples.append('%s: all obligations of the contract (pre/postconditions, invariants, overflow, bounds, asserts, termination)' % u.id)
    trusted = scan_trusted()
    ev = {
        'property_id': prop,
        'tier': tier,
        'seed': int(seed),
        'level': 'proof',
        'coverage': {
            'obligations': obligations,
            'discharged': discharged,
            'checker_cmd': ' ;; '.join(c for c in checker if c),
            'trusted_base': trusted + spec.get('assumptions', []),
            'backends': backends,
            'solver_time_ms': v.get('smt_ms', 0),
            'functions_under_contract': units_out,
            'bounded_standins_not_counted_as_proved': bounded,
            'undecided_subclaims': spec.get('undecided', []),
            'samples': samples[:24] or ['(none)'],
            'failed_obligations': [f.obligation for f in viol],
            'known_findings_reproduced': sorted(set(k['id'] for _, k in kf)),
            'known_finding_obligations': [f.obligation for f, _ in kf],
            'other_engines': {k: {kk: vv for kk, vv in s.items() if kk not in ('failures',)} for k, s in stats.items() if k not in ('verus', 'canary')},
            'explanation': spec.get('explanation', ''),
        },
        'assumptions': spec.get('assumptions', []) + ['Verus/Z3 and rustc are trusted', 'see coverage.trusted_base for every assumed contract / axiom'],
        'wall_s': round(wall, 2),
        'violations': len(viol),
    }
    if undecided:
        ev['coverage']['undecided'] = undecided
    json.dump(ev, open(os.path.join(EVIDENCE, prop + '.json'), 'w'), indent=1)


def main(argv):
    import argparse
    ap = argparse.ArgumentParser()
    ap.add_argument('prop')
    ap.add_argument('--tier', default=os.environ.get('VERIF_TIER', 'quick'))
    ap.add_argument('--update-allow', action='store_true')
    a = ap.parse_args(argv)
    if a.prop == 'allow':
        json.dump(scan_trusted(), open(ALLOW, 'w'), indent=1)
        print("trusted_allow.json updated: %d entries" % len(scan_trusted()))
        return 0
    if a.prop == 'setup':
        verus.deps_dir()
        print("deps ready")
        return 0
    seed = int(os.environ.get('VERIF_SEED', '0') or 0)
    return check_property(a.prop, a.tier, seed)
