"""Token-aware locator of Rust items (fn / struct / const / enum / type) in a source text.

Not a parser: it only knows enough lexical structure (comments, strings, raw strings, char
literals vs lifetimes) to match braces reliably, which is all the overlay needs.
"""
import re


class ScanError(Exception):
    pass


def _skip_trivia_and_literals(src, i):
    """If src[i:] starts a comment / string / char literal, return index just past it, else None."""
    n = len(src)
    c = src[i]
    if c == '/' and i + 1 < n:
        if src[i + 1] == '/':
            j = src.find('\n', i)
            return n if j < 0 else j
        if src[i + 1] == '*':
            depth = 1
            j = i + 2
            while j < n and depth > 0:
                if src.startswith('/*', j):
                    depth += 1
                    j += 2
                elif src.startswith('*/', j):
                    depth -= 1
                    j += 2
                else:
                    j += 1
            return j
    if c == '"':
        j = i + 1
        while j < n:
            if src[j] == '\\':
                j += 2
                continue
            if src[j] == '"':
                return j + 1
            j += 1
        return n
    if c in 'rb':
        # raw strings r"..", r#".."#, br".."; byte strings b".."; byte chars b'.'
        m = re.match(r'(?:br|rb|r)(#*)"', src[i:i + 40])
        if m and (i == 0 or not (src[i - 1].isalnum() or src[i - 1] == '_')):
            hashes = m.group(1)
            close = '"' + hashes
            j = src.find(close, i + m.end())
            return n if j < 0 else j + len(close)
        if c == 'b' and i + 1 < n and src[i + 1] == '"' and (i == 0 or not (src[i - 1].isalnum() or src[i - 1] == '_')):
            return _skip_trivia_and_literals(src, i + 1)
    if c == "'":
        # char literal or lifetime
        m = re.match(r"'(?:\\(?:x[0-9a-fA-F]{2}|u\{[0-9a-fA-F_]+\}|.)|[^\\'])'", src[i:i + 16])
        if m:
            return i + m.end()
        return i + 1  # lifetime tick
    return None


def iter_code(src, start=0, end=None):
    """Yield (index, char) for characters of src that are code (not in comments/strings)."""
    n = len(src) if end is None else end
    i = start
    while i < n:
        j = _skip_trivia_and_literals(src, i)
        if j is not None and j > i:
            if src[i] == "'" and j == i + 1:
                yield i, "'"
            i = j
            continue
        yield i, src[i]
        i += 1


def match_brace(src, open_idx):
    """Given index of a '{' (code position), return index of the matching '}'."""
    depth = 0
    for i, c in iter_code(src, open_idx):
        if c == '{':
            depth += 1
        elif c == '}':
            depth -= 1
            if depth == 0:
                return i
    raise ScanError("unbalanced braces from offset %d" % open_idx)


def code_mask(src):
    """bytearray: 1 where the char is code."""
    m = bytearray(len(src))
    for i, _ in iter_code(src):
        m[i] = 1
    return m


_ITEM_KW = {
    'fn': r'\bfn\s+%s\b',
    'struct': r'\bstruct\s+%s\b',
    'enum': r'\benum\s+%s\b',
    'const': r'\bconst\s+%s\b',
    'static': r'\bstatic\s+%s\b',
    'type': r'\btype\s+%s\b',
    'trait': r'\btrait\s+%s\b',
}


def _norm_ws(s):
    return re.sub(r'\s+', ' ', s.strip())


def find_containers(src, container, mask=None):
    """Return list of (open_brace_idx, close_brace_idx) for every `impl ...` header equal (modulo
    whitespace) to `container`."""
    mask = mask or code_mask(src)
    out = []
    for m in re.finditer(r'\b(impl|mod|trait)\b', src):
        if not mask[m.start()]:
            continue
        # header extends to the first code '{' or ';'
        j = m.start()
        brace = None
        for i, c in iter_code(src, j):
            if c == '{':
                brace = i
                break
            if c == ';':
                break
        if brace is None:
            continue
        header = _norm_ws(src[j:brace])
        if header == _norm_ws(container):
            out.append((brace, match_brace(src, brace)))
    return out


def _item_start(src, kw_idx):
    """Extend backwards from the keyword to the start of the item: visibility / qualifiers on the same
    line, then preceding attribute and doc-comment lines."""
    ls = src.rfind('\n', 0, kw_idx) + 1
    # the item starts at the first non-blank of this line
    start = ls
    while True:
        if start == 0:
            break
        pl_end = start - 1
        pl_start = src.rfind('\n', 0, pl_end) + 1
        line = src[pl_start:pl_end].strip()
        if line.startswith('#[') or line.startswith('///') or line.startswith('#!['):
            start = pl_start
            continue
        break
    return start


def _verus_only_nesting(src, lo, idx, mask):
    """True iff every brace opened in src[lo:idx] that is still open at idx is a `verus! {` brace."""
    stack = []
    for i, c in iter_code(src, lo, idx):
        if c == '{':
            pre = src[max(0, i - 12):i]
            stack.append(bool(re.search(r'verus!\s*$', pre)))
        elif c == '}':
            if stack:
                stack.pop()
    return all(stack)


def find_item(src, name, kind='fn', container=None, nth=0):
    """Locate an item. Returns (start, end) offsets: start at the beginning of the first line of the
    item (including attributes / doc comments), end just past the closing brace or semicolon (and
    the newline that follows)."""
    mask = code_mask(src)
    regions = [(-1, len(src))]
    if container:
        regions = find_containers(src, container, mask)
        if not regions:
            raise ScanError("container %r not found" % container)
    pat = re.compile(_ITEM_KW[kind] % re.escape(name))
    hits = []
    for (lo, hi) in regions:
        for m in pat.finditer(src, lo + 1, hi):
            if not mask[m.start()]:
                continue
            if not _verus_only_nesting(src, lo + 1, m.start(), mask):
                continue
            if kind == 'const':
                # skip `const fn`, const generics `<const N: usize>`
                pre = src[max(0, m.start() - 1):m.start()]
                if pre == '<' or re.match(r'const\s+fn\b', src[m.start():m.start() + 12]):
                    continue
                before = src[src.rfind('\n', 0, m.start()) + 1:m.start()]
                if before.strip() not in ('', 'pub', 'pub(crate)', 'pub(super)'):
                    continue
            hits.append(m.start())
    if len(hits) <= nth:
        raise ScanError("%s %s not found%s" % (kind, name, (" in " + container) if container else ""))
    kw = hits[nth]
    start = _item_start(src, kw)
    # find end: first code '{' or ';' at paren/bracket depth 0 after kw
    depth = 0
    end = None
    skip_until = -1
    for i, c in iter_code(src, kw):
        if i <= skip_until:
            continue
        if c in '([':
            depth += 1
        elif c in ')]':
            depth -= 1
        elif c == '{' and depth == 0:
            close = match_brace(src, i)
            if kind == 'fn':
                # a braced expression inside a header clause (`ensures r is Ok ==> { .. },`) is followed by a comma
                k = close + 1
                while k < len(src) and src[k] in ' \t\r\n':
                    k += 1
                if k < len(src) and src[k] == ',':
                    skip_until = close
                    continue
            end = close + 1
            break
        elif c == ';' and depth == 0:
            end = i + 1
            break
    if end is None:
        raise ScanError("end of %s %s not found" % (kind, name))
    # tuple structs / unit structs end with ';' after the brace-less body; struct {..} has no ';'
    if end < len(src) and src[end] == '\n':
        end += 1
    return start, end


def strip_verus_wrapper(src, start, end):
    """If [start,end) is the sole content of a `verus! { ... }` wrapper, return extent of wrapper."""
    pre = src[:start].rstrip()
    if pre.endswith('{') and re.search(r'verus!\s*\{$', pre):
        ws = pre.rfind('verus!')
        post = src[end:]
        m = re.match(r'\s*\}\s*(//\s*verus!)?[ \t]*\n?', post)
        if m:
            ls = src.rfind('\n', 0, ws) + 1
            if src[ls:ws].strip() == '':
                return ls, end + m.end()
    return None
