#!/bin/bash
# usage: confirm_seed_test.sh <worktree> <prop> <mK> <src file for demo test>
WT=$1; PROP=$2; M=$3; SRC=$4
OUT=/verif/seeded/$PROP-$M
mkdir -p $OUT
cd $WT && git checkout -q -- . && git apply out/$M/patch.diff || { echo "patch does not apply"; exit 1; }
TESTS=$(cargo test --offline --workspace 2>&1 | grep -E "^test result" | head -1)
NAME=$(grep -A2 "#\[test\]" out/$M/demo_test.rs | grep -o "fn [a-zA-Z0-9_]*" | head -1 | cut -d' ' -f2)
cat out/$M/demo_test.rs >> $SRC
timeout 900 cargo test --offline $NAME > /tmp/demo_with.txt 2>&1; RC_WITH=$?
cd /verif && git -C $WT stash -q 2>/dev/null
cd $WT && git checkout -q -- . 
cat out/$M/demo_test.rs >> $SRC
timeout 900 cargo test --offline $NAME > /tmp/demo_without.txt 2>&1; RC_WITHOUT=$?
git checkout -q -- .
git stash drop -q 2>/dev/null
cp out/$M/patch.diff out/$M/demo_test.rs $OUT/; cp out/$M/notes.md $OUT/notes.md
S=/var/tmp/yq-seed-$$; rm -rf $S; mkdir -p $S; rsync -a --exclude target --exclude .git /repo/ $S/; (cd $S && git apply $OUT/patch.diff)
cd /verif && YQV_EVIDENCE=/var/tmp/yq-scratch-evidence YQV_REPLAYS=/var/tmp/yq-scratch-replays YQV_REPO=$S ./check $PROP > /tmp/check_x.txt 2>&1; RC_CHECK=$?
rm -rf $S
grep -E "^(VIOLATION|UNDECIDED|KNOWN-FINDING|property|obligation failed)" /tmp/check_x.txt | cut -c1-300 > $OUT/check_output.txt
python3 - "$OUT" "$PROP" "$M" "$TESTS" "$RC_WITH" "$RC_WITHOUT" "$RC_CHECK" "$NAME" "$SRC" <<'PY'
import json,sys
out,prop,m,tests,w,wo,rc,name,src=sys.argv[1:10]
json.dump({'property':prop,'id':m,'breaks':prop,'tests_with_change':tests,'demo':'test fn %s appended to %s, run with cargo test --offline %s'%(name,src,name),
  'demo_exit_with_change':w,'demo_exit_without_change':wo,'our_check_exit':int(rc),'our_check_output':open(out+'/check_output.txt').read().split('\n')[:12],
  'what_it_needs_to_manifest':'see notes.md','ran':'tools/confirm_seed_test.sh'},open(out+'/meta.json','w'),indent=1)
print(prop,m,'tests:',tests,'demo with/without:',w,wo,'check rc',rc)
PY
