#!/bin/bash
# usage: confirm_seed.sh <worktree> <prop> <mK>   -> confirms an independently produced breaking change and runs our check on it
# writes /verif/seeded/<prop>-<mK>/{patch.diff, demo*, meta.json}
WT=$1; PROP=$2; M=$3
OUT=/verif/seeded/$PROP-$M
mkdir -p $OUT
cd $WT && git checkout -q -- . && git apply out/$M/patch.diff || { echo "patch does not apply"; exit 1; }
TESTS=$(cargo test --offline --workspace 2>&1 | grep -E "^test result" | head -1)
if [ -d out/$M/demo ]; then
  (cd out/$M/demo && timeout 600 cargo run --offline >/tmp/demo_with.txt 2>&1); RC_WITH=$?
else
  RC_WITH=NA
fi
# our check on the changed tree
S=/var/tmp/yq-seed-$$; rm -rf $S; mkdir -p $S; rsync -a --exclude target --exclude .git /repo/ $S/; (cd $S && git apply $WT/out/$M/patch.diff) || echo "patch does not apply to /repo HEAD"
cd /verif && YQV_EVIDENCE=/var/tmp/yq-scratch-evidence YQV_REPLAYS=/var/tmp/yq-scratch-replays YQV_REPO=$S ./check $PROP > /tmp/check_x.txt 2>&1; RC_CHECK=$?
rm -rf $S
grep -E "^(VIOLATION|UNDECIDED|KNOWN-FINDING|property|obligation failed)" /tmp/check_x.txt | cut -c1-300 > $OUT/check_output.txt
cd $WT && git checkout -q -- .
if [ -d out/$M/demo ]; then
  (cd out/$M/demo && timeout 600 cargo run --offline >/tmp/demo_without.txt 2>&1); RC_WITHOUT=$?
  rm -rf out/$M/demo/target
  cp -r out/$M/demo $OUT/demo
else
  RC_WITHOUT=NA
fi
cp out/$M/patch.diff $OUT/patch.diff
cp out/$M/notes.md $OUT/notes.md 2>/dev/null
[ -f out/$M/demo_test.rs ] && cp out/$M/demo_test.rs $OUT/
python3 - "$OUT" "$PROP" "$M" "$TESTS" "$RC_WITH" "$RC_WITHOUT" "$RC_CHECK" <<'PY'
import json,sys
out,prop,m,tests,w,wo,rc=sys.argv[1:8]
notes=open(out+'/notes.md').read() if __import__('os').path.exists(out+'/notes.md') else ''
json.dump({'property':prop,'id':m,'breaks':prop,'tests_with_change':tests,'demo_exit_with_change':w,'demo_exit_without_change':wo,
  'our_check_exit':int(rc),'our_check_output':open(out+'/check_output.txt').read().split('\n')[:12],
  'what_it_needs_to_manifest':'see notes.md','ran':'tools/confirm_seed.sh (apply patch in a scratch worktree, cargo test --offline --workspace, demo with/without, YQV_REPO=<worktree> ./check %s)'%prop},
  open(out+'/meta.json','w'),indent=1)
print(prop,m,'tests:',tests,'demo with/without:',w,wo,'check rc',rc)
PY
