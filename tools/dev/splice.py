import sys
sys.path.insert(0,'/verif/tools')
from yqv import rustscan
def splice(file, name, ann, container=None, kind='fn', nth=0):
    p='/var/tmp/yqa/w/'+file
    src=open(p).read()
    s,e=rustscan.find_item(src,name,kind,container,nth)
    w=rustscan.strip_verus_wrapper(src,s,e)
    if w: s,e=w
    src=src[:s]+'verus! {\n'+ann.rstrip('\n')+'\n} // verus!\n'+src[e:]
    open(p,'w').write(src)
