#!/usr/bin/env python3
"""benign-edit campaign: each edit keeps the behaviour; every check must stay 'held' (exit 0)"""
import subprocess, sys, os, re, json
EDITS = [
 # (name, prop, file, old, new)
 ("reflow-nm", "C08", "src/arith.rs", "        let nm = (n as u128) * (self.m64 as u128);\n        let himul", "        let nm = (n as u128)\n            * (self.m64 as u128);\n        let himul"),
 ("commute-qp", "C08", "src/arith.rs", "let qp = q * p;\n        if qp > n {\n            (q - 1, p - (qp - n))", "let qp = p * q;\n        if qp > n {\n            (q - 1, p - (qp - n))"),
 ("comment-redc", "C07", "src/arith_montgomery.rs", "    // reduce\n    let m = mul as u128 * n as u128;", "    // reduce: m is a multiple of n\n\n    let m = mul as u128 * n as u128;"),
 ("rename-redc", "C07", "src/arith_montgomery.rs", None, ("mg_redc", {"mhi": "m_high", "xhi": "x_high"})),
 ("rename-exp", "C16", "src/pollard_pm1.rs", None, ("exp_modn", {"exprev": "erev", "consumed": "used"})),
 ("extract-g4", "C16", "src/pollard_pm1.rs", "    let g5 = zn.mul(&g3, &g2);\n    let g7 = zn.mul(&g5, &g2);\n    let mut i = exprev", "    let g5 = zn.mul(&g2, &g3);\n    let g7 = zn.mul(&g2, &g5);\n    let mut i = exprev"),
 ("primes-commute", "C17", "src/fbase.rs", "            let p = 2 * i + 1;\n            primes.push(p as u32);", "            let p = i * 2 + 1;\n            primes.push(p as u32);"),
 ("rename-primes", "C17", "src/fbase.rs", None, ("primes", {"bound": "limit"})),
 ("rename-factor-impl", "C01", "src/lib.rs", None, ("factor_impl", {"is_perfect_power": "pp", "alg_real": "algo2"})),
 ("rename-sieve", "C17", "src/fbase.rs", None, ("next", {"o3p": "next_o"})),
 ("reflow-sieve", "C17", "src/fbase.rs", "                    self.block.push(((self.block_count << 16) + idx) as u32);", "                    self.block\n                        .push(((self.block_count << 16) + idx) as u32);"),
 ("comment-invmod", "C08", "src/arith.rs", "        let x = if e.x < 0 { e.x + p as i128 } else { e.x };", "        // make the cofactor non-negative\n        let x = if e.x < 0 { e.x + p as i128 } else { e.x };"),
 ("rename-pm1", "C16", "src/pollard_pm1.rs", None, ("factor", {"xr240": "x240", "fmax": "nblocks"})),
 ("swap-pm1", "C16", "src/pollard_pm1.rs", "        let xr480 = mg_mul(n, ninv, xr240, xr240);\n        let xr502 = mg_mul(n, ninv, xr480, jumps[22 / 2 - 1]);", "        let xr480 = mg_mul(n, ninv, xr240, xr240);\n\n        let xr502 = mg_mul(n, ninv, jumps[22 / 2 - 1], xr480);"),
 ("rename-batch", "C12", "src/mpqs.rs", None, ("batch_inversion", {"prodrev": "acc", "invprod": "inv_all"})),
 ("rename-reduce64", "C09", "src/arith_gcd.rs", None, ("reduce64", {"u": "cur", "v": "nxt"})),
 ("commute-dot", "C09", "src/arith_gcd.rs", "let neg = (ax > by && a < 0) || (ax < by && b < 0);", "let neg = (a < 0 && ax > by) || (b < 0 && ax < by);"),
 ("comment-gcd", "C09", "src/arith_gcd.rs", "        // Now xtop and ytop have similar sizes.\n", "        // Now xtop and ytop have similar sizes\n        // (see reduce64 for the matrix bound).\n\n"),
 ("reflow-mulword", "C09", "src/arith_gcd.rs", "        let nw = nd[i] as u128 * w as u128 + carry as u128;", "        let nw =\n            nd[i] as u128 * w as u128 + carry as u128;"),
 ("rename-gcd", "C09", "src/arith_gcd.rs", None, ("gcd_internal", {"ax_by": "newx", "cx_dy": "newy", "negx": "flipx", "negy": "flipy"})),
 ("swap-biggcd", "C09", "src/arith_gcd.rs", "    if p.is_zero() {\n        return *n;\n    }\n    if n.is_zero() {\n        return *p;\n    }\n    gcd_internal::<N, false>", "    if n.is_zero() {\n        return *p;\n    }\n    if p.is_zero() {\n        return *n;\n    }\n    gcd_internal::<N, false>"),
 ("rename-chainlong", "C15", "src/ecm.rs", None, ("make_addition_chain_long", {"curbits": "cb", "nextword": "nw", "lastword": "lw"})),
 ("comment-chainlong", "C15", "src/ecm.rs", "                exp >>= tz;\n                bits += tz;", "                // drop the zero bits\n                exp >>= tz;\n\n                bits += tz;"),
 ("rename-pseudoprime", "C06", "src/lib.rs", None, ("pseudoprime", {"p_odd": "odd_part", "pm1": "minus_one"})),
 ("comment-factor", "C01", "src/lib.rs", "    if n.is_one() {\n        return;\n    }\n    let is_perfect_power", "    // nothing to do for 1\n    if n.is_one() {\n        return;\n    }\n\n    let is_perfect_power"),
]
def fn_span(t, name):
    m = re.search(r'\bfn %s\b' % name, t)
    i = m.start(); j = t.index('{', i); d = 0
    for k in range(j, len(t)):
        if t[k] == '{': d += 1
        elif t[k] == '}':
            d -= 1
            if d == 0: return i, k + 1
only = sys.argv[1:] 
for name, prop, f, old, new in EDITS:
    if only and name not in only: continue
    subprocess.check_call(['rsync','-a','--delete','--exclude','target','--exclude','.git','/repo/','/var/tmp/yqm/'])
    p = '/var/tmp/yqm/' + f
    t = open(p).read()
    if old is None:
        fn, ren = new
        i, j = fn_span(t, fn)
        seg = t[i:j]
        for a, b in ren.items():
            assert re.search(r'\b%s\b' % a, seg), a
            seg = re.sub(r'\b%s\b' % a, b, seg)
        t = t[:i] + seg + t[j:]
    else:
        assert t.count(old) >= 1, (name, t.count(old))
        t = t.replace(old, new, 1)
    open(p, 'w').write(t)
    r = subprocess.run(['cargo','build','--offline','--lib','-q'], cwd='/var/tmp/yqm', capture_output=True, text=True, env=dict(os.environ, CARGO_TARGET_DIR='/var/tmp/benign/target'))
    if r.returncode != 0:
        print(name, 'DOES NOT COMPILE', r.stderr[-300:]); continue
    env = dict(os.environ, YQV_EVIDENCE='/var/tmp/yq-scratch-evidence', YQV_REPLAYS='/var/tmp/yq-scratch-replays', YQV_REPO='/var/tmp/yqm')
    r = subprocess.run(['./check', prop], cwd='/verif', capture_output=True, text=True, env=env)
    lines = [l[:200] for l in r.stdout.split('\n') if re.match(r'^(VIOLATION|UNDECIDED|property|obligation failed)', l)]
    print(name, prop, 'rc=%d' % r.returncode, ' | '.join(lines), flush=True)
