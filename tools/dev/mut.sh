#!/bin/sh
# usage: mut.sh <prop> <file> <python-expr old> <new>   : apply replacement to scratch copy, run check, restore
PROP=$1; FILE=$2; OLD=$3; NEW=$4
rsync -a --delete --exclude target --exclude .git /repo/ /var/tmp/yqm/
python3 - "$FILE" "$OLD" "$NEW" <<'PY'
import sys
f,old,new=sys.argv[1:4]
p='/var/tmp/yqm/'+f
t=open(p).read()
assert t.count(old)>=1,("not found",old)
t=t.replace(old,new,1)
open(p,'w').write(t)
PY
cd /verif && YQV_EVIDENCE=/var/tmp/yq-scratch-evidence YQV_REPLAYS=/var/tmp/yq-scratch-replays YQV_REPO=/var/tmp/yqm ./check $PROP 2>&1 | grep -E "^(VIOLATION|UNDECIDED|property|KNOWN|obligation failed)" | cut -c1-250
echo "rc=$?"
