#!/usr/bin/env python3
"""Regenerates section 0 of DESIGN.md from design_status.md and the seeded/*/meta.json outcomes."""
import json, os, re, glob
V = os.path.dirname(os.path.dirname(os.path.abspath(__file__)))
rows = ['| change | where | our check | failing obligation / reason for the miss |', '|---|---|---|---|']
for d in sorted(glob.glob(os.path.join(V, 'seeded', '*', 'meta.json'))):
    m = json.load(open(d))
    name = os.path.basename(os.path.dirname(d))
    patch = open(os.path.join(os.path.dirname(d), 'patch.diff')).read()
    files = sorted(set(re.findall(r'^\+\+\+ b/(\S+)', patch, re.M)))
    hunk = re.search(r'^@@[^@]*@@ ?(.*)$', patch, re.M)
    where = ', '.join(files) + (' (`%s`)' % hunk.group(1).strip()[:60] if hunk and hunk.group(1).strip() else '')
    rc = m.get('our_check_exit')
    out = [l for l in m.get('our_check_output', []) if l.startswith('obligation failed')]
    if rc == 1:
        res = 'VIOLATION' + ('' if not any('no-failing-input-found' in l for l in m.get('our_check_output', [])) else ' (no-failing-input-found)')
        why = out[0][len('obligation failed: '):][:150].replace('|', '\\|') if out else ''
        if m.get('first_contact'):
            res += ' — missed on first contact'
    elif rc == 0:
        res = 'missed'
        why = m.get('miss_reason', 'function not under contract')
    else:
        res = 'undecided (exit 2)'
        why = (m.get('our_check_output') or [''])[0][:150]
    rows.append('| %s | %s | %s | %s |' % (name, where, res, why))
status = open(os.path.join(V, 'design_status.md')).read().replace('@SEEDED_TABLE@', '\n'.join(rows))
p = os.path.join(V, 'DESIGN.md')
s = open(p).read()
B, E = '<!-- status:begin -->\n', '<!-- status:end -->\n'
if B in s:
    s = s[:s.index(B)] + B + status + E + s[s.index(E) + len(E):]
else:
    sep = '-' * 87 + '\n'
    i = s.index(sep) + len(sep)
    s = s[:i] + '\n' + B + status + E + '\n' + sep + s[i:]
open(p, 'w').write(s)
print('DESIGN.md section 0 regenerated (%d seeded changes)' % (len(rows) - 2))
