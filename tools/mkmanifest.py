#!/usr/bin/env python3
"""Generate MANIFEST.json from propmap.json (claimed properties) + na.json (not applicable, with reasons)."""
import json, os
V = os.path.dirname(os.path.dirname(os.path.abspath(__file__)))
pm = json.load(open(os.path.join(V, 'propmap.json')))
na = json.load(open(os.path.join(V, 'na.json')))
allp = [json.loads(l)['id'] for l in open(os.path.join(V, 'properties.jsonl'))]
fixes = []   # no hook commits: /repo carries no instrumentation (the `fix:` commits are listed in known_findings.jsonl)
checks = []
for pid in allp:
    if pid not in pm:
        assert pid in na, pid
        continue
    s = pm[pid]
    checks.append({
        'property_id': pid,
        'quick_cmd': './check %s --tier quick' % pid,
        'thorough_cmd': './check %s --tier thorough' % pid,
        'evidence_file': 'evidence/%s.json' % pid,
        'replay_cmd_template': './check replay {path}',
        'engine': 'yqv',
        'level_claimed': {'category': 'proof', 'text': s['level_text'], 'design_ref': s.get('design_ref', 'DESIGN.md section 5')},
        'level_note': s['level_note'],
        'technique': s['technique'],
    })
m = {
    'version': 1,
    'setup_cmd': './check setup',
    'hooks': {
        'guard': 'none (contracts are overlaid on a per-run copy of the working tree; /repo carries no hooks)',
        'enable': 'n/a: ./check copies /repo/src to a scratch directory, wraps the functions under contract in verus!{} and inserts ghost text there',
        'baseline_off_cmd': 'cd /repo && cargo test --workspace --no-fail-fast --offline',
        'source_commits': fixes,
        'add_only': True,
    },
    'engines': [{'name': 'yqv', 'path': 'tools/yqv', 'serves_properties': [c['property_id'] for c in checks],
                 'kind_free_text': 'contract overlay on the real source + Verus (Z3) per function; Kani/CBMC for finite-domain units; sympy ideal reduction for curve formulas'}],
    'checks': checks,
    'not_applicable': [{'property_id': p, 'reason': na[p]} for p in allp if p not in pm],
    'notes': 'exit 2 of a check = undecided (tool limit), never an alarm. See DESIGN.md.',
}
json.dump(m, open(os.path.join(V, 'MANIFEST.json'), 'w'), indent=1)
print('MANIFEST.json: %d checks, %d not applicable' % (len(checks), len(m['not_applicable'])))
